(* uploading/config.rs::parse_duration_v0.  [parse_duration_v0] is the code as it is now (after the repair of finding F8: checked parse and
   checked multiplication); [parse_duration_v0_v0] is the code before that repair, kept with its witnesses so that the finding stays documented. *)
From Coq Require Import List Arith NArith Lia Bool ZifyBool ZifyN.
Import ListNotations.
Require Import Codec.
Open Scope N_scope.

Definition U64 := 18446744073709551616.
Inductive dres := Dur (secs : N) | Invalid | Panic.

Definition unit_of (c : N) : option N :=
  if c =? 109 then Some 60 else if c =? 104 then Some 3600 else if c =? 100 then Some 86400 else None.   (* m h d *)

(* ^[1-9]\d*[mhd]$ : split off the last character *)
Fixpoint split_last (s : list N) : option (list N * N) :=
  match s with [] => None | [c] => Some ([], c) | c :: r => match split_last r with Some (a, l) => Some (c :: a, l) | None => None end end.

Definition parse_duration_v0 (release : bool) (s : list N) : dres :=
  match split_last s with
  | Some (c :: ds, u) =>
      if negb ((49 <=? c) && (c <=? 57)) then Invalid else
      if negb (forallb is_digit ds) then Invalid else
      match unit_of u, parse_N (c :: ds) with
      | Some k, Some n =>
          if U64 <=? n then Panic                                   (* parse::<u64>().unwrap() *)
          else if n * k <? U64 then Dur (n * k)
          else if release then Dur ((n * k) mod U64) else Panic      (* duration *= unit *)
      | _, _ => Invalid
      end
  | _ => Invalid
  end.

Lemma split_last_app : forall a c, split_last (a ++ [c]) = Some (a, c).
Proof.
  induction a as [|x a IH]; intro c; [reflexivity|]. cbn [app split_last]. rewrite IH.
  destruct (a ++ [c]) eqn:E; [destruct a; discriminate|reflexivity].
Qed.

Lemma split_last_inv : forall s a l, split_last s = Some (a, l) -> s = a ++ [l].
Proof.
  induction s as [|c r IH]; intros a l H; [discriminate|]. cbn [split_last] in H. destruct r as [|c' r'].
  - inversion H; reflexivity.
  - destruct (split_last (c' :: r')) as [[a' l']|]; [|discriminate]. inversion H; subst. cbn [app]. f_equal. now apply IH.
Qed.

Definition lead (c : N) := (49 <=? c) && (c <=? 57).

(* accepted strings are exactly [1-9][0-9]*[mhd]; the value is the decimal value times the unit --
   provided the product fits u64.  Beyond that the debug build panics and the release build wraps (F8). *)
Theorem parse_duration_v0_ok : forall rel c ds u k n,
  lead c = true -> forallb is_digit ds = true -> unit_of u = Some k -> parse_N (c :: ds) = Some n -> n * k < U64 ->
  parse_duration_v0 rel (c :: ds ++ [u]) = Dur (n * k).
Proof.
  intros rel c ds u k n Hc Hd Hu Hp Hlt. unfold parse_duration_v0.
  change (c :: ds ++ [u]) with ((c :: ds) ++ [u]). rewrite split_last_app. fold (lead c). rewrite Hc, Hd, Hu, Hp. cbn [negb].
  assert (1 <= k) by (unfold unit_of in Hu; destruct (u =? 109), (u =? 104), (u =? 100); inversion Hu; subst; lia).
  assert (U64 <=? n = false) as -> by nia. assert (n * k <? U64 = true) as -> by lia. reflexivity.
Qed.

Theorem parse_duration_v0_inv : forall rel s t, parse_duration_v0 rel s = Dur t ->
  exists c ds u k n, s = c :: ds ++ [u] /\ lead c = true /\ forallb is_digit ds = true /\ unit_of u = Some k /\
    parse_N (c :: ds) = Some n /\ n < U64 /\
    ((n * k < U64 /\ t = n * k) \/ (rel = true /\ U64 <= n * k /\ t = (n * k) mod U64)).
Proof.
  intros rel s t H. unfold parse_duration_v0 in H. destruct (split_last s) as [[[|c ds] u]|] eqn:Es; try discriminate.
  apply split_last_inv in Es. fold (lead c) in H. destruct (lead c) eqn:Hc; cbn [negb] in H; [|discriminate].
  destruct (forallb is_digit ds) eqn:Hd; cbn [negb] in H; [|discriminate].
  destruct (unit_of u) as [k|] eqn:Hu; [|discriminate]. destruct (parse_N (c :: ds)) as [n|] eqn:Hp; [|discriminate].
  destruct (U64 <=? n) eqn:E1; [discriminate|]. exists c, ds, u, k, n. repeat split; auto; [lia|].
  destruct (n * k <? U64) eqn:E2.
  - inversion H; subst. left. split; [lia|reflexivity].
  - destruct rel; [|discriminate]. inversion H; subst. right. repeat split; auto. lia.
Qed.

(* F8 inside the model: a well-formed specification whose threshold comes out as 17 hours in the release build *)
Example F8_release_wraps :
  parse_duration_v0 true (print_N 213503982334602 ++ [100]) = Dur 61184 /\
  parse_duration_v0 false (print_N 213503982334602 ++ [100]) = Panic /\
  parse_duration_v0 false (print_N 99999999999999999999 ++ [100]) = Panic.
Proof. vm_compute. repeat split. Qed.
Example ok_example : parse_duration_v0 false [55; 100] = Dur 604800.   (* "7d" *)
Proof. vm_compute. reflexivity. Qed.


(* ---- the repaired parser ---- *)
Definition parse_duration (s : list N) : dres :=
  match split_last s with
  | Some (c :: ds, u) =>
      if negb ((49 <=? c) && (c <=? 57)) then Invalid else
      if negb (forallb is_digit ds) then Invalid else
      match unit_of u, parse_N (c :: ds) with
      | Some k, Some n =>
          if U64 <=? n then Invalid                                 (* parse::<u64>().ok() *)
          else if n * k <? U64 then Dur (n * k) else Invalid        (* checked_mul *)
      | _, _ => Invalid
      end
  | _ => Invalid
  end.

Theorem parse_duration_ok : forall c ds u k n,
  lead c = true -> forallb is_digit ds = true -> unit_of u = Some k -> parse_N (c :: ds) = Some n -> n * k < U64 ->
  parse_duration (c :: ds ++ [u]) = Dur (n * k).
Proof.
  intros c ds u k n Hc Hd Hu Hp Hlt. unfold parse_duration.
  change (c :: ds ++ [u]) with ((c :: ds) ++ [u]). rewrite split_last_app. fold (lead c). rewrite Hc, Hd, Hu, Hp. cbn [negb].
  assert (1 <= k) by (unfold unit_of in Hu; destruct (u =? 109), (u =? 104), (u =? 100); inversion Hu; subst; lia).
  assert (U64 <=? n = false) as -> by nia. assert (n * k <? U64 = true) as -> by lia. reflexivity.
Qed.

(* accepted strings are exactly [1-9][0-9]*[mhd] whose value in seconds fits u64; the value is number x unit; nothing
   panics and nothing wraps *)
Theorem parse_duration_inv : forall s t, parse_duration s = Dur t ->
  exists c ds u k n, s = c :: ds ++ [u] /\ lead c = true /\ forallb is_digit ds = true /\ unit_of u = Some k /\
    parse_N (c :: ds) = Some n /\ n * k < U64 /\ t = n * k.
Proof.
  intros s t H. unfold parse_duration in H. destruct (split_last s) as [[[|c ds] u]|] eqn:Es; try discriminate.
  apply split_last_inv in Es. fold (lead c) in H. destruct (lead c) eqn:Hc; cbn [negb] in H; [|discriminate].
  destruct (forallb is_digit ds) eqn:Hd; cbn [negb] in H; [|discriminate].
  destruct (unit_of u) as [k|] eqn:Hu; [|discriminate]. destruct (parse_N (c :: ds)) as [n|] eqn:Hp; [|discriminate].
  destruct (U64 <=? n) eqn:E1; [discriminate|]. exists c, ds, u, k, n.
  destruct (n * k <? U64) eqn:E2; [|discriminate]. inversion H; subst. repeat split; auto. lia.
Qed.

Theorem parse_duration_never_panics : forall s, parse_duration s <> Panic.
Proof.
  intro s. unfold parse_duration. destruct (split_last s) as [[[|c ds] u]|]; try discriminate.
  destruct (negb _); [discriminate|]. destruct (negb _); [discriminate|].
  destruct (unit_of u); [|discriminate]. destruct (parse_N (c :: ds)); [|discriminate].
  destruct (U64 <=? n0); [discriminate|]. destruct (_ <? U64); discriminate.
Qed.

Example F8_repaired :
  parse_duration (print_N 213503982334602 ++ [100]) = Invalid /\
  parse_duration (print_N 99999999999999999999 ++ [100]) = Invalid /\
  parse_duration [55; 100] = Dur 604800.
Proof. vm_compute. repeat split. Qed.
Print Assumptions parse_duration_inv.
