(* Wire glue for the path functions (C11 confinement, C20 normalisation).
   1101: (dir path) -> restore_path; 1102: (path) -> file_path_from_tar; 2001: (path) -> validate_path
   result: (0) rejected | (1 bytes) *)
From Coq Require Import List NArith Bool.
Import ListNotations.
Require Import Wire Paths Paths2.
Local Open Scope N_scope.

Definition enc_optb (o : option (list N)) : val := match o with Some b => VL [VN 1; of_bytes b] | None => VL [VN 0] end.

Definition run_restore_path (v : val) : val :=
  match v with
  | VL [d; p] => match as_bytes d, as_bytes p with Some d, Some p => enc_optb (restore_path d p) | _, _ => bad_input end
  | _ => bad_input end.
Definition run_tar_path (v : val) : val :=
  match v with
  | VL [p] => match as_bytes p with Some p => enc_optb (file_path_from_tar p) | None => bad_input end
  | _ => bad_input end.
Definition run_validate_path (v : val) : val :=
  match v with
  | VL [p] => match as_bytes p with Some p => enc_optb (validate_path p) | None => bad_input end
  | _ => bad_input end.
