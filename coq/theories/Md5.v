(* PROTOTYPE (round 0): C18, the MD5 half - util/hash.rs::Md5 forwards every write to the digest and never short-writes;
   the digest library is trusted to be a function of the concatenated input; the rendering is lower-case hex *)
From Coq Require Import List Arith NArith Lia Bool.
Import ListNotations.
Require Import Codec Codec2.

Section M.
Variable Hmd5 : list N -> list N.
Definition md5_write (st : list N) (buf : list N) : list N * nat := (st ++ buf, length buf).   (* update; Ok(buf.len()) *)
Definition md5_feed (ws : list (list N)) : list N := fold_left (fun st w => fst (md5_write st w)) ws [].
Definition md5_finish (st : list N) : list N := Hmd5 st.

Lemma fold_app_concat : forall ws acc, fold_left (fun st w => fst (md5_write st w)) ws acc = acc ++ concat ws.
Proof. induction ws as [|w ws IH]; intro acc; cbn; [now rewrite app_nil_r|]. now rewrite IH, app_assoc. Qed.

Theorem md5_any_fragmentation : forall ws, md5_finish (md5_feed ws) = Hmd5 (concat ws).
Proof. intro ws. unfold md5_finish, md5_feed. now rewrite fold_app_concat. Qed.

Theorem md5_write_complete : forall st buf, snd (md5_write st buf) = length buf.
Proof. reflexivity. Qed.
End M.

(* both providers' checksums are rendered with hex::encode: lower-case digits only *)
Definition is_lower_hex (c : N) := is_digit c || ((97 <=? c) && (c <=? 102))%N.
Theorem rendering_lower_hex : forall digest, bytes digest -> forallb is_lower_hex (encode_hex digest) = true.
Proof. intros d H. exact (hex_class d H). Qed.
Print Assumptions md5_any_fragmentation.
