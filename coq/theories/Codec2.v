(* PROTOTYPE (round 0): full manifest item codec (storage/metadata.rs): encode, lines(), decode; round trip *)
From Coq Require Import List Arith NArith ZArith Lia Bool ZifyBool ZifyN.
Import ListNotations.
Require Import Codec.
Open Scope N_scope.
Ltac Zify.zify_post_hook ::= Z.div_mod_to_equations.

Definition PLUS := 43.
Definition U64 := 18446744073709551616.                   (* 2^64 *)
Definition I127 := 170141183460469231731687303715884105728. (* 2^127 *)

(* ---- character classes ---- *)
Definition nosep (sep : N) (s : list N) := forallb (fun c => negb (c =? sep)) s.
Lemma nospace_nosep : forall s, nospace s = nosep SP s. Proof. reflexivity. Qed.
Lemma all_nosep : forall (P : N -> bool) sep s, (forall c, P c = true -> c <> sep) -> forallb P s = true -> nosep sep s = true.
Proof.
  intros P sep s HP; induction s as [|c s IH]; [reflexivity|]. cbn [forallb nosep]. intro H. apply andb_true_iff in H as [Hc Hs].
  fold (nosep sep s). rewrite (IH Hs), andb_true_r. apply negb_true_iff, N.eqb_neq. auto.
Qed.
Lemma nosep_app : forall sep a b, nosep sep (a ++ b) = nosep sep a && nosep sep b.
Proof. intros. unfold nosep. apply forallb_app. Qed.

(* ---- hex ---- *)
Definition hexd (d : N) : N := if d <? 10 then 48 + d else 87 + d.
Definition unhex (c : N) : option N :=
  if (48 <=? c) && (c <=? 57) then Some (c - 48)
  else if (97 <=? c) && (c <=? 102) then Some (c - 87)
  else if (65 <=? c) && (c <=? 70) then Some (c - 55) else None.
Fixpoint encode_hex (bs : list N) : list N :=
  match bs with [] => [] | b :: r => hexd (b / 16) :: hexd (b mod 16) :: encode_hex r end.
Fixpoint decode_hex (s : list N) : option (list N) :=
  match s with
  | [] => Some []
  | [_] => None
  | h :: l :: r => match unhex h, unhex l, decode_hex r with
                   | Some a, Some b, Some t => Some (16 * a + b :: t)
                   | _, _, _ => None end
  end.

Lemma unhex_hexd : forall d, d < 16 -> unhex (hexd d) = Some d.
Proof.
  intros d Hd. unfold hexd, unhex. destruct (d <? 10) eqn:E.
  - assert ((48 <=? 48 + d) && (48 + d <=? 57) = true) as -> by lia. f_equal. lia.
  - assert ((48 <=? 87 + d) && (87 + d <=? 57) = false) as -> by lia.
    assert ((97 <=? 87 + d) && (87 + d <=? 102) = true) as -> by lia. f_equal. lia.
Qed.

Definition is_hexch (c : N) := is_digit c || ((97 <=? c) && (c <=? 102)).
Lemma hexd_class : forall d, d < 16 -> is_hexch (hexd d) = true.
Proof. intros d Hd. unfold is_hexch, is_digit, hexd. destruct (d <? 10) eqn:E; lia. Qed.

Definition bytes (bs : list N) := Forall (fun b => b < 256) bs.

Lemma hex_roundtrip : forall bs, bytes bs -> decode_hex (encode_hex bs) = Some bs.
Proof.
  induction bs as [|b bs IH]; intro H; [reflexivity|]. cbn [encode_hex decode_hex].
  apply Forall_cons_iff in H as [Hb Hbs].
  rewrite !unhex_hexd by lia. rewrite (IH Hbs). f_equal. f_equal. lia.
Qed.
Lemma hex_class : forall bs, bytes bs -> forallb is_hexch (encode_hex bs) = true.
Proof.
  induction bs as [|b bs IH]; intro H; [reflexivity|]. apply Forall_cons_iff in H as [Hb Hbs].
  cbn [encode_hex forallb]. rewrite !hexd_class by lia. now rewrite (IH Hbs).
Qed.

(* ---- integers as Rust's FromStr reads them ---- *)
Definition strip_plus (s : list N) := match s with c :: r => if c =? PLUS then r else s | [] => [] end.
Definition parse_u64 (s : list N) : option N :=
  match parse_N (strip_plus s) with Some n => if n <? U64 then Some n else None | None => None end.
Definition parse_pos127 (s : list N) : option Z :=
  match parse_N s with Some n => if n <? I127 then Some (Z.of_N n) else None | None => None end.
Definition parse_i128 (s : list N) : option Z :=
  match s with
  | c :: r => if c =? MINUS then match parse_N r with Some n => if n <=? I127 then Some (- Z.of_N n)%Z else None | None => None end
              else if c =? PLUS then parse_pos127 r else parse_pos127 s
  | [] => None
  end.
Definition print_Z (z : Z) : list N := if (z <? 0)%Z then MINUS :: print_N (Z.abs_N z) else print_N (Z.to_N z).

Lemma print_N_digits : forall n, forallb is_digit (print_N n) = true.
Proof. intros. apply print_uint_digits. Qed.

Lemma print_N_head : forall n, exists c r, print_N n = c :: r /\ is_digit c = true.
Proof.
  intro n. pose proof (print_N_nonempty n) as Hne. pose proof (print_N_digits n) as Hd.
  destruct (print_N n) as [|c r]; [congruence|]. cbn [forallb] in Hd. apply andb_true_iff in Hd as [Hc _]. eauto.
Qed.

Lemma parse_u64_print : forall n, n < U64 -> parse_u64 (print_N n) = Some n.
Proof.
  intros n Hn. unfold parse_u64. destruct (print_N_head n) as (c & r & E & Hc).
  assert (strip_plus (print_N n) = print_N n) as ->.
  { rewrite E. unfold strip_plus. unfold is_digit, PLUS in *. assert (c =? 43 = false) as -> by lia. reflexivity. }
  rewrite parse_print_N. assert (n <? U64 = true) as -> by lia. reflexivity.
Qed.

Lemma parse_i128_print : forall z, (- Z.of_N I127 <= z < Z.of_N I127)%Z -> parse_i128 (print_Z z) = Some z.
Proof.
  intros z Hz. unfold print_Z. destruct (z <? 0)%Z eqn:E.
  - unfold parse_i128. assert (MINUS =? MINUS = true) as -> by reflexivity. rewrite parse_print_N.
    assert (Z.abs_N z <=? I127 = true) as -> by lia. f_equal. lia.
  - destruct (print_N_head (Z.to_N z)) as (c & r & Ep & Hc). unfold parse_i128. rewrite Ep.
    unfold is_digit, MINUS, PLUS in *. assert (c =? 45 = false) as -> by lia. assert (c =? 43 = false) as -> by lia.
    rewrite <- Ep. unfold parse_pos127. rewrite parse_print_N. assert (Z.to_N z <? I127 = true) as -> by lia. f_equal. lia.
Qed.

Definition is_numch (c : N) := is_digit c || (c =? MINUS).
Lemma print_Z_class : forall z, forallb is_numch (print_Z z) = true.
Proof.
  intro z. assert (H : forall n, forallb is_numch (print_N n) = true).
  { intro n. pose proof (print_N_digits n) as Hd. rewrite forallb_forall in *. intros c Hc. unfold is_numch. now rewrite (Hd c Hc). }
  unfold print_Z. destruct (z <? 0)%Z; auto. cbn [forallb]. now rewrite H.
Qed.

(* ---- split(sep) ---- *)
Fixpoint split_on (sep : N) (s : list N) : list (list N) :=
  match s with
  | [] => [[]]
  | c :: r => if c =? sep then [] :: split_on sep r
              else match split_on sep r with h :: t => (c :: h) :: t | [] => [[c]] end
  end.
Lemma split_on_app : forall sep a r, nosep sep a = true -> split_on sep (a ++ sep :: r) = a :: split_on sep r.
Proof.
  intros sep a; induction a as [|c a IH]; intros r H.
  - cbn [app split_on]. now rewrite N.eqb_refl.
  - cbn [nosep forallb] in H. apply andb_true_iff in H as [Hc Ha]. apply negb_true_iff in Hc.
    cbn [app split_on]. rewrite Hc. fold (nosep sep a) in Ha. now rewrite (IH r Ha).
Qed.
Lemma split_on_none : forall sep a, nosep sep a = true -> split_on sep a = [a].
Proof.
  intros sep a; induction a as [|c a IH]; intro H; [reflexivity|].
  cbn [nosep forallb] in H. apply andb_true_iff in H as [Hc Ha]. apply negb_true_iff in Hc.
  cbn [split_on]. rewrite Hc. fold (nosep sep a) in Ha. now rewrite (IH Ha).
Qed.

(* ---- fingerprint ---- *)
Definition encode_fp (d i : N) (m : Z) : list N := print_N d ++ COLON :: print_N i ++ COLON :: print_Z m.
Definition decode_fp (s : list N) : option (N * N * Z) :=
  match split_on COLON s with
  | [a; b; c] => match parse_u64 a, parse_u64 b, parse_i128 c with
                 | Some d, Some i, Some m => Some (d, i, m) | _, _, _ => None end
  | _ => None
  end.

Lemma numch_nosep : forall sep s, sep <> MINUS -> (sep < 48 \/ 57 < sep) -> forallb is_numch s = true -> nosep sep s = true.
Proof.
  intros sep s H1 H2. apply all_nosep. intros c Hc. unfold is_numch, is_digit, MINUS in *. lia.
Qed.
Lemma digits_numch : forall s, forallb is_digit s = true -> forallb is_numch s = true.
Proof. intros s H. rewrite forallb_forall in *. intros c Hc. unfold is_numch. now rewrite (H c Hc). Qed.

Lemma fp_roundtrip : forall d i m, d < U64 -> i < U64 -> (- Z.of_N I127 <= m < Z.of_N I127)%Z ->
  decode_fp (encode_fp d i m) = Some (d, i, m).
Proof.
  intros d i m Hd Hi Hm. unfold decode_fp, encode_fp.
  assert (Hc : forall n, nosep COLON (print_N n) = true).
  { intro n. apply numch_nosep; [discriminate|right; reflexivity|apply digits_numch, print_N_digits]. }
  rewrite split_on_app by auto. rewrite split_on_app by auto.
  rewrite split_on_none by (apply numch_nosep; [discriminate|right; reflexivity|apply print_Z_class]).
  now rewrite !parse_u64_print, parse_i128_print by auto.
Qed.

(* ---- one line ---- *)
Record item := { i_unique : bool; i_hash : list N; i_dev : N; i_ino : N; i_mtime : Z; i_size : N; i_path : list N }.
Definition S_UNIQUE := [117; 110; 105; 113; 117; 101].
Definition S_EXTERN := [101; 120; 116; 101; 114; 110].
Fixpoint leqb (a b : list N) : bool :=
  match a, b with [], [] => true | x :: a', y :: b' => (x =? y) && leqb a' b' | _, _ => false end.

Definition encode (it : item) : list N :=
  (if i_unique it then S_UNIQUE else S_EXTERN) ++ SP :: encode_hex (i_hash it) ++ SP ::
  encode_fp (i_dev it) (i_ino it) (i_mtime it) ++ SP :: print_N (i_size it) ++ SP :: i_path it.

Definition decode (l : list N) : option item :=
  match splitn5 l with
  | Some (f1, f2, f3, f4, p) =>
    match (if leqb f1 S_EXTERN then Some false else if leqb f1 S_UNIQUE then Some true else None),
          decode_hex f2, decode_fp f3, parse_u64 f4 with
    | Some u, Some h, Some (d, i, m), Some sz =>
        Some {| i_unique := u; i_hash := h; i_dev := d; i_ino := i; i_mtime := m; i_size := sz; i_path := p |}
    | _, _, _, _ => None
    end
  | None => None
  end.

Record wf (it : item) : Prop := {
  wf_hash : bytes (i_hash it);
  wf_dev : i_dev it < U64; wf_ino : i_ino it < U64; wf_size : i_size it < U64;
  wf_mtime : (- Z.of_N I127 <= i_mtime it < Z.of_N I127)%Z;
  wf_path : nosep NL (i_path it) = true /\ nosep CR (i_path it) = true }.

Definition is_fieldch (c : N) := is_digit c || (c =? MINUS) || (c =? COLON) || ((97 <=? c) && (c <=? 122)).
Lemma fieldch_weaken : forall (P : N -> bool) s, (forall c, P c = true -> is_fieldch c = true) -> forallb P s = true -> forallb is_fieldch s = true.
Proof. intros P s HP H. rewrite forallb_forall in *. auto. Qed.

Lemma fp_class : forall d i m, forallb is_fieldch (encode_fp d i m) = true.
Proof.
  intros. unfold encode_fp. rewrite forallb_app. cbn [forallb]. rewrite forallb_app. cbn [forallb].
  assert (Hn : forall s, forallb is_numch s = true -> forallb is_fieldch s = true).
  { intro s. apply fieldch_weaken. intros c Hc. unfold is_fieldch, is_numch, is_digit, MINUS, COLON in *. lia. }
  rewrite !Hn by (try apply print_Z_class; apply digits_numch, print_N_digits). reflexivity.
Qed.
Lemma hex_fieldch : forall bs, bytes bs -> forallb is_fieldch (encode_hex bs) = true.
Proof.
  intros bs H. apply fieldch_weaken with (P := is_hexch); [|now apply hex_class].
  intros c Hc. unfold is_fieldch, is_hexch, is_digit in *. lia.
Qed.
Lemma status_fieldch : forall u : bool, forallb is_fieldch (if u then S_UNIQUE else S_EXTERN) = true.
Proof. intros [|]; reflexivity. Qed.
Lemma fieldch_nosep : forall sep s, (sep = SP \/ sep = NL \/ sep = CR) -> forallb is_fieldch s = true -> nosep sep s = true.
Proof.
  intros sep s Hs. apply all_nosep. intros c Hc. unfold is_fieldch, is_digit, MINUS, COLON, SP, NL, CR in *. lia.
Qed.

Theorem decode_encode : forall it, wf it -> decode (encode it) = Some it.
Proof.
  intros [u h d i m sz p] [Hh Hd Hi Hs Hm Hp]; cbn [i_unique i_hash i_dev i_ino i_mtime i_size i_path] in *.
  unfold decode, encode; cbn [i_unique i_hash i_dev i_ino i_mtime i_size i_path].
  rewrite splitn5_join.
  - rewrite hex_roundtrip, fp_roundtrip, parse_u64_print by auto. now destruct u.
  - rewrite nospace_nosep. apply fieldch_nosep; auto. apply status_fieldch.
  - rewrite nospace_nosep. apply fieldch_nosep; auto. now apply hex_fieldch.
  - rewrite nospace_nosep. apply fieldch_nosep; auto. apply fp_class.
  - apply digits_nospace, print_N_digits.
Qed.

(* ---- BufRead::lines ---- *)
Fixpoint strip_cr (a : list N) : list N :=
  match a with [] => [] | c :: r => match r with [] => if c =? CR then [] else [c] | _ => c :: strip_cr r end end.
Definition lines (s : list N) : list (list N) :=
  let segs := split_on NL s in
  map strip_cr (removelast segs) ++ match last segs [] with [] => [] | l => [l] end.

Lemma strip_cr_none : forall a, nosep CR a = true -> strip_cr a = a.
Proof.
  induction a as [|c a IH]; intro H; [reflexivity|]. cbn [nosep forallb] in H. apply andb_true_iff in H as [Hc Ha].
  apply negb_true_iff in Hc. cbn [strip_cr]. destruct a as [|c' a']; [now rewrite Hc|]. f_equal. now apply IH.
Qed.

Definition encode_lines (its : list item) : list N := concat (map (fun it => encode it ++ [NL]) its).
Fixpoint decode_all (ls : list (list N)) : option (list item) :=
  match ls with [] => Some [] | l :: r => match decode l, decode_all r with Some it, Some t => Some (it :: t) | _, _ => None end end.
Definition decode_lines (s : list N) := decode_all (lines s).

Lemma encode_nosep : forall sep it, (sep = NL \/ sep = CR) -> wf it -> nosep sep (encode it) = true.
Proof.
  intros sep [u h d i m sz p] Hs [Hh Hd Hi Hsz Hm [Hp1 Hp2]]; cbn [i_unique i_hash i_dev i_ino i_mtime i_size i_path] in *.
  unfold encode; cbn [i_unique i_hash i_dev i_ino i_mtime i_size i_path].
  assert (Hsp : negb (SP =? sep) = true) by (destruct Hs; subst; reflexivity).
  assert (Hs' : sep = SP \/ sep = NL \/ sep = CR) by tauto.
  assert (Hcons : forall c s, nosep sep (c :: s) = negb (c =? sep) && nosep sep s) by reflexivity.
  repeat (rewrite nosep_app || rewrite Hcons).
  rewrite Hsp.
  rewrite (fieldch_nosep sep _ Hs' (status_fieldch u)), (fieldch_nosep sep _ Hs' (hex_fieldch _ Hh)),
          (fieldch_nosep sep _ Hs' (fp_class d i m)).
  rewrite (fieldch_nosep sep (print_N sz) Hs') by (apply fieldch_weaken with (P := is_digit); [|apply print_N_digits]; intros c Hc; unfold is_fieldch; now rewrite Hc).
  destruct Hs; subst; [rewrite Hp1|rewrite Hp2]; reflexivity.
Qed.

Lemma split_lines : forall ls, Forall (fun l => nosep NL l = true) ls ->
  split_on NL (concat (map (fun l => l ++ [NL]) ls)) = ls ++ [[]].
Proof.
  induction ls as [|l ls IH]; intro H; [reflexivity|]. apply Forall_cons_iff in H as [Hl Hls].
  cbn [map concat]. rewrite <- app_assoc. cbn [app]. rewrite split_on_app by auto. now rewrite (IH Hls).
Qed.

Theorem decode_encode_lines : forall its, Forall wf its -> decode_lines (encode_lines its) = Some its.
Proof.
  intros its H. unfold decode_lines, lines, encode_lines.
  rewrite <- (map_map encode (fun l => l ++ [NL])).
  rewrite split_lines.
  2:{ apply Forall_map. eapply Forall_impl; [|exact H]. intros it Hit. apply encode_nosep; auto. }
  rewrite removelast_last, last_last, app_nil_r.
  induction its as [|it its IH]; [reflexivity|]. apply Forall_cons_iff in H as [Hit Hits].
  cbn [map decode_all]. rewrite strip_cr_none by (apply encode_nosep; auto).
  rewrite decode_encode by auto. now rewrite (IH Hits).
Qed.
Print Assumptions decode_encode_lines.

Corollary encode_injective : forall a b, wf a -> wf b -> encode a = encode b -> a = b.
Proof. intros a b Ha Hb E. apply (f_equal decode) in E. rewrite !decode_encode in E by auto. now inversion E. Qed.

(* the CR ban is needed: a path ending in CR does not survive lines() *)
Example cr_path_lost :
  let it := {| i_unique := false; i_hash := [171]; i_dev := 1; i_ino := 2; i_mtime := (-5)%Z; i_size := 0; i_path := [47; 97; 13] |} in
  option_map (map i_path) (decode_lines (encode_lines [it])) = Some [[47; 97]].
Proof. vm_compute. reflexivity. Qed.
(* what the reader accepts beyond what the writer produces: '+' signs, upper-case hex, an empty path, an empty hash *)
Example lenient_reader :
  option_map i_size (decode (S_EXTERN ++ SP :: [65; 98] ++ SP :: [43; 49; 58; 48; 58; 45; 48] ++ SP :: [43; 55] ++ [SP])) = Some 7.
Proof. vm_compute. reflexivity. Qed.
