(* PROTOTYPE (round 0): exec half of the C11 completeness proof *)
From Coq Require Import List Arith NArith ZArith Lia Bool.
Import ListNotations.
Require Import Restore2.
Open Scope N_scope.

Definition HasFile (t : tree) (q : path) (h : hash) (sz : N) : Prop :=
  exists d m, t_get q t = Some (RFile d m) /\ N.of_nat (length d) = sz /\ H d = h.
Definition text (t t' : tree) : Prop :=
  forall q d m, t_get q t = Some (RFile d m) -> exists m', t_get q t' = Some (RFile d m').

Lemma text_refl : forall t, text t t. Proof. intros t q d m Hq; eauto. Qed.
Lemma text_trans : forall a b c, text a b -> text b c -> text a c.
Proof. intros a b c H1 H2 q d m Hq. destruct (H1 _ _ _ Hq) as (m' & Hq'). eauto. Qed.
Lemma HasFile_text : forall t t' q h sz, text t t' -> HasFile t q h sz -> HasFile t' q h sz.
Proof. intros t t' q h sz Ht (d & m & Hq & Hs & Hh). destruct (Ht _ _ _ Hq) as (m' & Hq'). exists d, m'; auto. Qed.

Lemma create_text : forall p n t t', create p n t = Some t' -> text t t' /\ t_get p t' = Some n.
Proof.
  intros p n t t' Hc. unfold create in Hc. destruct p as [|x p']; [discriminate|].
  destruct (t_get (x :: p') t) eqn:Eg; [discriminate|].
  destruct (parent_ok (x :: p') t); [|discriminate]. inversion Hc; subst t'. split.
  - intros q d m Hq. cbn [t_get]. destruct (list_eqb_spec q (x :: p')) as [->|]; [congruence|eauto].
  - cbn [t_get]. destruct (list_eqb_spec (x :: p') (x :: p')); congruence.
Qed.

Lemma setmeta_text : forall p m t t', t_setmeta p m t = Some t' -> text t t'.
Proof.
  intros p m t. induction t as [|[q n] t IH]; intros t' Hs; cbn [t_setmeta] in Hs; [discriminate|].
  destruct (list_eqb_spec p q) as [->|Hne].
  - inversion Hs; subst t'. intros r d m0 Hr. cbn [t_get] in *.
    destruct (list_eqb_spec r q) as [->|]; [|eauto]. inversion Hr; subst n. eauto.
  - destruct (t_setmeta p m t) as [t''|] eqn:E; [|discriminate]. inversion Hs; subst t'.
    intros r d m0 Hr. cbn [t_get] in *. destruct (list_eqb_spec r q); [eauto|]. apply (IH t'' eq_refl _ _ _ Hr).
Qed.

Lemma restore_directories_text : forall p t t' cr, restore_directories p t = Some (t', cr) -> text t t'.
Proof.
  intros p t. unfold restore_directories.
  generalize (filter (fun a => match t_get a t with None => true | Some _ => false end) (ancestors (length p) p)) as ms.
  induction ms as [|a ms IH]; intros t' cr Hr; cbn [fold_right] in Hr.
  - inversion Hr; subst. apply text_refl.
  - match type of Hr with match ?X with _ => _ end = _ => destruct X as [[t1 cr1]|] eqn:E end; [|discriminate].
    destruct (create a (RDir None) t1) as [t2|] eqn:Ec; [|discriminate]. inversion Hr; subst.
    eapply text_trans; [eapply IH; eauto | eapply create_text; eauto].
Qed.

Lemma restore_one_spec : forall p out it q s s', restore_one p out it q s = Some s' ->
  text (tr s) (tr s') /\ (exists m, t_get q (tr s') = Some (RFile out m)) /\ ok s' = ok s /\ seen s' = seen s.
Proof.
  intros p out it q s s' Hr. unfold restore_one in Hr.
  match type of Hr with match ?X with _ => _ end = _ => destruct X as [s1|] eqn:E1 end; [|discriminate].
  destruct (create q (RFile out None) (tr s1)) as [t'|] eqn:Ec; [|discriminate]. inversion Hr; subst s'. clear Hr.
  destruct (create_text _ _ _ _ Ec) as [Ht Hg]. cbn [tr ok seen set_tr].
  assert (Hs1 : text (tr s) (tr s1) /\ ok s1 = ok s /\ seen s1 = seen s).
  { destruct (it && list_eqb q p); [inversion E1; subst; repeat split; auto using text_refl|].
    destruct (mem q (pending s)); [|discriminate]. destruct it.
    - destruct (restore_directories q (tr s)) as [[t1 cr]|] eqn:Ed; [|discriminate]. inversion E1; subst s1. cbn.
      repeat split; auto. eapply restore_directories_text; eauto.
    - inversion E1; subst s1. cbn. repeat split; auto using text_refl. }
  destruct Hs1 as (Ht1 & Hok & Hseen). repeat split; eauto using text_trans.
Qed.

Lemma restore_paths_spec : forall p out it qs s s', restore_paths p out it qs s = Some s' ->
  text (tr s) (tr s') /\ (forall q, In q qs -> exists m, t_get q (tr s') = Some (RFile out m)) /\ ok s' = ok s /\ seen s' = seen s.
Proof.
  intros p out it qs. induction qs as [|q qs IH]; intros s s' Hr; cbn [restore_paths] in Hr.
  - inversion Hr; subst. repeat split; auto using text_refl. intros q [].
  - destruct (restore_one p out it q s) as [s1|] eqn:E1; [|discriminate].
    destruct (restore_one_spec _ _ _ _ _ _ E1) as (Ht1 & (m1 & Hq1) & Hok1 & Hse1).
    destruct (IH _ _ Hr) as (Ht & Hall & Hok & Hse). repeat split; eauto using text_trans; try congruence.
    intros q' [<-|Hin]; [|auto]. destruct (Ht _ _ _ Hq1) as (m' & Hq'). eauto.
Qed.

Lemma restore_files_spec : forall p m decl data info it s s', restore_files p m decl data info it s = Some s' ->
  text (tr s) (tr s') /\ (forall q, In q (rf_paths info) -> HasFile (tr s') q (rf_hash info) (rf_size info)) /\
  ok s' = ok s /\ seen s' = seen s.
Proof.
  intros p m decl data info it s s' Hr. unfold restore_files in Hr.
  set (real := take (N.min (rf_size info) decl) data) in *.
  set (out := real ++ repeat 0 (N.to_nat (rf_size info) - length real)) in *.
  destruct (restore_paths p out it (rf_paths info) s) as [s2|] eqn:E2; [|discriminate].
  destruct (restore_paths_spec _ _ _ _ _ _ E2) as (Ht2 & Hall & Hok2 & Hse2).
  destruct (N.eqb_spec (N.of_nat (length real)) (rf_size info)) as [Hsz|]; [|discriminate]. cbn [negb] in Hr.
  destruct (list_eqb_spec (H real) (rf_hash info)) as [Hh|]; [|discriminate]. cbn [negb] in Hr.
  assert (Hout : out = real).
  { unfold out. replace (N.to_nat (rf_size info) - length real)%nat with 0%nat by lia. apply app_nil_r. }
  assert (Hfiles : forall q, In q (rf_paths info) -> HasFile (tr s2) q (rf_hash info) (rf_size info)).
  { intros q Hq. destruct (Hall q Hq) as (mq & Hg). exists real, mq. rewrite <- Hout at 1. auto. }
  destruct (it && mem p (rf_paths info)).
  - destruct (t_setmeta p m (tr s2)) as [t'|] eqn:Es; [|discriminate]. inversion Hr; subst s'. cbn [tr ok seen set_tr].
    pose proof (setmeta_text _ _ _ _ Es) as Hts. repeat split; eauto using text_trans.
    intros q Hq. eapply HasFile_text; eauto.
  - inversion Hr; subst s'. repeat split; auto.
Qed.

(* every path recorded as seen was restored from its step record *)
Definition SeenInv (files : smap) (s : rs) : Prop :=
  forall p, In p (seen s) -> exists info, map_get p files = Some info /\
            forall q, In q (rf_paths info) -> HasFile (tr s) q (rf_hash info) (rf_size info).

Lemma SeenInv_text : forall files s s', SeenInv files s -> text (tr s) (tr s') -> seen s' = seen s -> SeenInv files s'.
Proof.
  intros files s s' HI Ht Hs p Hp. rewrite Hs in Hp. destruct (HI p Hp) as (info & Hg & Hall).
  exists info; split; auto. intros q Hq. eapply HasFile_text; eauto.
Qed.

Lemma do_entry_spec : forall files missing it e s s', do_entry files missing it e s = Some s' ->
  SeenInv files s -> text (tr s) (tr s') /\ SeenInv files s' /\ (ok s' = true -> ok s = true).
Proof.
  intros files missing it e s s' He HI. destruct e as [p m|p m decl data|p m t]; cbn [do_entry] in He.
  - destruct it; [|inversion He; subst; auto using text_refl].
    match type of He with match ?X with _ => _ end = _ => destruct X as [s1|] eqn:E1 end; [|discriminate].
    inversion He; subst s'. cbn [tr ok seen].
    assert (Hs1 : text (tr s) (tr s1) /\ seen s1 = seen s /\ ok s1 = ok s).
    { destruct (mem p (pre s)); [inversion E1; subst; cbn; auto using text_refl|].
      destruct (create p (RDir None) (tr s)) as [t'|] eqn:Ec; [|discriminate]. inversion E1; subst s1. cbn.
      repeat split; auto. eapply create_text; eauto. }
    destruct Hs1 as (Ht & Hse & Hok). repeat split; auto; [|congruence].
    intros q Hq. cbn [seen] in Hq. rewrite Hse in Hq. destruct (HI q Hq) as (info & Hg & Hall). exists info. split; auto.
    intros r Hr. cbn [tr]. eapply HasFile_text; eauto.
  - destruct (map_get p files) as [info|] eqn:Eg.
    + destruct (restore_files p m decl data info it s) as [s1|] eqn:Er; [|discriminate]. inversion He; subst s'.
      destruct (restore_files_spec _ _ _ _ _ _ _ _ Er) as (Ht & Hall & Hok & Hse). cbn [tr ok seen].
      repeat split; auto; [|congruence]. intros q [<-|Hq].
      * exists info. split; auto.
      * rewrite Hse in Hq. destruct (HI q Hq) as (info' & Hg' & Hall'). exists info'. split; auto.
        intros r Hr. cbn [tr]. eapply HasFile_text; eauto.
    + destruct it; [|inversion He; subst; auto using text_refl].
      destruct (mem p (pending s) || mem p (restored s)).
      * inversion He; subst s'. cbn. repeat split; auto using text_refl. intros Hk. now apply andb_true_iff in Hk.
      * destruct (mem p missing); inversion He; subst s'; cbn; repeat split; auto using text_refl. discriminate.
  - destruct it; [|inversion He; subst; auto using text_refl].
    destruct (create p (RSym t m) (tr s)) as [t'|] eqn:Ec; [|discriminate]. inversion He; subst s'.
    pose proof (create_text _ _ _ _ Ec) as [Ht _]. cbn [tr ok seen set_tr]. repeat split; auto.
    eapply SeenInv_text; eauto.
Qed.

Lemma do_entries_spec : forall files missing it es s s', do_entries files missing it es s = Some s' ->
  SeenInv files s -> text (tr s) (tr s') /\ SeenInv files s' /\ (ok s' = true -> ok s = true).
Proof.
  intros files missing it es. induction es as [|e es IH]; intros s s' Hd HI; cbn [do_entries] in Hd.
  - inversion Hd; subst. auto using text_refl.
  - destruct (do_entry files missing it e s) as [s1|] eqn:E1; [|discriminate].
    destruct (do_entry_spec _ _ _ _ _ _ E1 HI) as (Ht1 & HI1 & Hok1).
    destruct (IH _ _ Hd HI1) as (Ht & HI' & Hok). repeat split; eauto using text_trans.
Qed.

Lemma map_get_In : forall p m info, map_get p m = Some info -> In (p, info) m.
Proof.
  intros p m. induction m as [|[q f] m IH]; intros info Hg; cbn [map_get] in Hg; [discriminate|].
  destruct (list_eqb_spec p q) as [->|]; [inversion Hg; subst; now left | right; auto].
Qed.
Lemma mem_In : forall p l, mem p l = true <-> In p l.
Proof.
  intros p l. unfold mem. rewrite existsb_exists. split.
  - intros (x & Hx & E). destruct (list_eqb_spec p x); [subst; auto|discriminate].
  - intros Hin. exists p. split; auto. destruct (list_eqb_spec p p); congruence.
Qed.

Definition StepDone (t : tree) (st : step) : Prop :=
  forall p info, map_get p (snd st) = Some info -> forall q, In q (rf_paths info) -> HasFile t q (rf_hash info) (rf_size info).

Lemma do_step_spec : forall fx missing it st s s', do_step fx missing it st s = Some s' ->
  text (tr s) (tr s') /\ (ok s' = true -> ok s = true) /\ (fx2 fx = true -> ok s' = true -> StepDone (tr s') st).
Proof.
  intros fx missing it st s s' Hd. unfold do_step in Hd.
  match type of Hd with match ?X with _ => _ end = _ => destruct X as [s1|] eqn:E1 end; [|discriminate].
  inversion Hd; subst s'. clear Hd. cbn [tr ok].
  edestruct (do_entries_spec _ _ _ _ _ _ E1) as (Ht & HI & Hok).
  { intros p []. }
  cbn [tr ok] in *. repeat split; auto.
  - intros Hk. apply andb_true_iff in Hk as [Hk _]. auto.
  - intros Hfx Hk. apply andb_true_iff in Hk as [_ Hk]. rewrite Hfx in Hk. cbn [negb orb] in Hk.
    intros p info Hg q Hq. rewrite forallb_forall in Hk. specialize (Hk (p, info) (map_get_In _ _ _ Hg)). cbn in Hk.
    apply mem_In in Hk. destruct (HI p Hk) as (info' & Hg' & Hall). rewrite Hg in Hg'. inversion Hg'; subst info'. auto.
Qed.

Lemma do_steps_spec : forall fx missing steps first s s', do_steps fx missing first steps s = Some s' ->
  text (tr s) (tr s') /\ (ok s' = true -> ok s = true) /\
  (fx2 fx = true -> ok s' = true -> forall st, In st steps -> StepDone (tr s') st).
Proof.
  intros fx missing steps. induction steps as [|st steps IH]; intros first s s' Hd; cbn [do_steps] in Hd.
  - inversion Hd; subst. repeat split; auto using text_refl. intros _ _ st [].
  - destruct (do_step fx missing first st s) as [s1|] eqn:E1; [|discriminate].
    destruct (do_step_spec _ _ _ _ _ _ E1) as (Ht1 & Hok1 & Hdone1).
    destruct (IH _ _ _ Hd) as (Ht & Hok & Hdone). repeat split; eauto using text_trans.
    intros Hfx Hk st' [<-|Hin]; [|auto].
    intros p info Hg q Hq. eapply HasFile_text; [exact Ht|]. apply (Hdone1 Hfx (Hok Hk) p info Hg q Hq).
Qed.

Lemma apply_sched_text : forall pend sc t t', apply_sched pend sc t = Some t' -> text t t'.
Proof.
  intros pend sc. induction sc as [|[p m] sc IH]; intros t t' Ha; cbn [apply_sched] in Ha.
  - inversion Ha; subst; apply text_refl.
  - destruct (mem p pend); [eauto|]. destruct (t_setmeta p m t) as [t1|] eqn:Es; [|discriminate].
    eapply text_trans; [eapply setmeta_text; eauto | eauto].
Qed.
