(* C04 — the bytes the provider receives are exactly the bytes the encryptor produced.
   Model: the gpg-stdout reader thread (hash every block, forward it, finish with the checksum) composed with the stream
   splitter, for an arbitrary sequence of blocks read from gpg's stdout and an arbitrary request-size limit. *)
From Coq Require Import List Arith NArith Bool.
Import ListNotations.
Require Import Chunk Splitter Splitter3 Md5 Compose Compose2 Compose3 Compose4.
Require Providers2 Dropbox2.

(* limited requests (Dropbox): the request bodies are the stream cut at the limit, in order, at contiguous offsets from 0;
   their concatenation is the stream; the finalisation carries the stream's length and the block-wise checksum *)
Theorem C04_upload_stream_exact :
  forall (H : list N -> list N) (blk : nat), blk > 0 ->
  forall (blocks : list (list N)) (m budget : nat), m >= 1 -> 2 * length (concat blocks) + 1 <= budget ->
  exists (msgs : list msg) (es0 : list ev),
    reader H blk blocks = Some msgs /\
    splitter (Some m) budget msgs = (es0 ++ [EEof (length (concat blocks)) (spec H blk (concat blocks))], ROk) /\
    bodies (es0 ++ [EEof (length (concat blocks)) (spec H blk (concat blocks))]) = from_off 0 (chunks m (concat blocks)) /\
    concat (chunks m (concat blocks)) = concat blocks.
Proof. exact upload_stream_exact. Qed.
Check C04_upload_stream_exact :
  forall (H : list N -> list N) (blk : nat), blk > 0 ->
  forall (blocks : list (list N)) (m budget : nat), m >= 1 -> 2 * length (concat blocks) + 1 <= budget ->
  exists (msgs : list msg) (es0 : list ev),
    reader H blk blocks = Some msgs /\
    splitter (Some m) budget msgs = (es0 ++ [EEof (length (concat blocks)) (spec H blk (concat blocks))], ROk) /\
    bodies (es0 ++ [EEof (length (concat blocks)) (spec H blk (concat blocks))]) = from_off 0 (chunks m (concat blocks)) /\
    concat (chunks m (concat blocks)) = concat blocks.

(* unlimited requests (Yandex Disk, Google Drive): one body holding the whole stream, then length and MD5 of the stream *)
Theorem C04_upload_stream_exact_unlimited :
  forall (Hmd5 : list N -> list N) (blocks : list (list N)) (budget : nat), 2 * length blocks + 1 <= budget ->
  exists es0,
    splitter None budget (reader_md5 Hmd5 blocks) = (es0 ++ [EEof (length (concat blocks)) (Hmd5 (concat blocks))], ROk) /\
    bodies (es0 ++ [EEof (length (concat blocks)) (Hmd5 (concat blocks))]) = one_body 0 (concat blocks).
Proof. exact upload_stream_exact_unlimited. Qed.
Check C04_upload_stream_exact_unlimited :
  forall (Hmd5 : list N -> list N) (blocks : list (list N)) (budget : nat), 2 * length blocks + 1 <= budget ->
  exists es0,
    splitter None budget (reader_md5 Hmd5 blocks) = (es0 ++ [EEof (length (concat blocks)) (Hmd5 (concat blocks))], ROk) /\
    bodies (es0 ++ [EEof (length (concat blocks)) (Hmd5 (concat blocks))]) = one_body 0 (concat blocks).

(* composed with the Dropbox upload machine (C05), for ANY server replies and any server-side checksum function: if the final name
   changes at all, the object under it is exactly the concatenation of the blocks the encryptor produced, the call succeeded, and the
   server's checksum of that object is the provider checksum vsb computed *)
Theorem C04_final_object_is_stream :
  forall (H : list N -> list N) (blk : nat) (beqb : Providers2.bytes -> Providers2.bytes -> bool),
  (forall a b, reflect (a = b) (beqb a b)) ->
  forall reply Hsrv blocks m s s' res, m >= 1 ->
  Dropbox2.dropbox reply Hsrv beqb
    (cevs_of (from_off 0 (chunks m (concat blocks))) (length (concat blocks)) (spec H blk (concat blocks))) s = (s', res) ->
  Dropbox2.dfinal s' <> Dropbox2.dfinal s ->
  Dropbox2.dfinal s' = Some (concat blocks) /\ res = true /\ Hsrv (concat blocks) = spec H blk (concat blocks).
Proof. exact final_object_is_stream. Qed.
Check C04_final_object_is_stream :
  forall (H : list N -> list N) (blk : nat) (beqb : Providers2.bytes -> Providers2.bytes -> bool),
  (forall a b, reflect (a = b) (beqb a b)) ->
  forall reply Hsrv blocks m s s' res, m >= 1 ->
  Dropbox2.dropbox reply Hsrv beqb
    (cevs_of (from_off 0 (chunks m (concat blocks))) (length (concat blocks)) (spec H blk (concat blocks))) s = (s', res) ->
  Dropbox2.dfinal s' <> Dropbox2.dfinal s ->
  Dropbox2.dfinal s' = Some (concat blocks) /\ res = true /\ Hsrv (concat blocks) = spec H blk (concat blocks).

(* ... and against an honest server (every request succeeds, offsets checked, content hash = the provider's function) the upload
   does succeed and publishes exactly that object, leaving no temporary behind *)
Theorem C04_honest_upload_publishes_stream :
  forall (H : list N -> list N) (blk : nat),
  forall (beqb : Providers2.bytes -> Providers2.bytes -> bool), (forall a b, reflect (a = b) (beqb a b)) ->
  forall blocks m s, m >= 1 -> Dropbox2.dfinal s = None ->
  exists s', Dropbox2.dropbox (fun _ => Providers2.Ok) (spec H blk) beqb
               (cevs_of (from_off 0 (chunks m (concat blocks))) (length (concat blocks)) (spec H blk (concat blocks))) s = (s', true) /\
             Dropbox2.dfinal s' = Some (concat blocks) /\ Dropbox2.dtemp s' = None.
Proof. exact honest_upload_publishes_stream. Qed.
Check C04_honest_upload_publishes_stream :
  forall (H : list N -> list N) (blk : nat),
  forall (beqb : Providers2.bytes -> Providers2.bytes -> bool), (forall a b, reflect (a = b) (beqb a b)) ->
  forall blocks m s, m >= 1 -> Dropbox2.dfinal s = None ->
  exists s', Dropbox2.dropbox (fun _ => Providers2.Ok) (spec H blk) beqb
               (cevs_of (from_off 0 (chunks m (concat blocks))) (length (concat blocks)) (spec H blk (concat blocks))) s = (s', true) /\
             Dropbox2.dfinal s' = Some (concat blocks) /\ Dropbox2.dtemp s' = None.

(* the same for the single streamed body of Yandex Disk and Google Drive: whatever the server answers, a changed final name holds
   exactly the encryptor's output, and the server's checksum of it is the MD5 vsb computed *)
Theorem C04_yandex_final_object_is_stream : forall (Hmd5 : list N -> list N) (beqb : Providers2.bytes -> Providers2.bytes -> bool),
  (forall a b, reflect (a = b) (beqb a b)) ->
  forall reply Hsrv polls data s s' res, data <> [] ->
  Providers2.yandex reply Hsrv beqb polls (cevs_of (one_body 0 data) (length data) (Hmd5 data)) s = (s', res) ->
  Providers2.yfinal s' <> Providers2.yfinal s ->
  Providers2.yfinal s' = Some data /\ res = true /\ Hsrv data = Hmd5 data.
Proof. exact yandex_final_object_is_stream. Qed.
Check C04_yandex_final_object_is_stream : forall (Hmd5 : list N -> list N) (beqb : Providers2.bytes -> Providers2.bytes -> bool),
  (forall a b, reflect (a = b) (beqb a b)) ->
  forall reply Hsrv polls data s s' res, data <> [] ->
  Providers2.yandex reply Hsrv beqb polls (cevs_of (one_body 0 data) (length data) (Hmd5 data)) s = (s', res) ->
  Providers2.yfinal s' <> Providers2.yfinal s ->
  Providers2.yfinal s' = Some data /\ res = true /\ Hsrv data = Hmd5 data.
Theorem C04_google_final_object_is_stream : forall (Hmd5 : list N -> list N) (beqb : Providers2.bytes -> Providers2.bytes -> bool),
  (forall a b, reflect (a = b) (beqb a b)) ->
  forall reply Hsrv data s s' res, data <> [] ->
  Providers2.google reply Hsrv beqb (cevs_of (one_body 0 data) (length data) (Hmd5 data)) s = (s', res) ->
  Providers2.gfinal s' <> Providers2.gfinal s ->
  Providers2.gfinal s' = Providers2.gfinal s ++ [data] /\ res = true /\ Hsrv data = Hmd5 data.
Proof. exact google_final_object_is_stream. Qed.
Check C04_google_final_object_is_stream : forall (Hmd5 : list N -> list N) (beqb : Providers2.bytes -> Providers2.bytes -> bool),
  (forall a b, reflect (a = b) (beqb a b)) ->
  forall reply Hsrv data s s' res, data <> [] ->
  Providers2.google reply Hsrv beqb (cevs_of (one_body 0 data) (length data) (Hmd5 data)) s = (s', res) ->
  Providers2.gfinal s' <> Providers2.gfinal s ->
  Providers2.gfinal s' = Providers2.gfinal s ++ [data] /\ res = true /\ Hsrv data = Hmd5 data.

Print Assumptions C04_upload_stream_exact.
Print Assumptions C04_upload_stream_exact_unlimited.
Print Assumptions C04_final_object_is_stream.
Print Assumptions C04_honest_upload_publishes_stream.
Print Assumptions C04_yandex_final_object_is_stream.
Print Assumptions C04_google_final_object_is_stream.
