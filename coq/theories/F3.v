(* The open finding F3 as a statement about the faithful model (see KNOWN_FINDINGS.json). *)
From Coq Require Import List Arith NArith Bool.
Import ListNotations.
Require Import Verify.

Lemma F3_witness :
  exists gs, fail_after_select [] 3 1 = gs /\
  exists gs', publish gs 3 2 0 [line] = Some gs' /\ verify (map RGroup gs') = false.
Proof. eexists. split; [reflexivity|]. eexists. split; [reflexivity|]. vm_compute. reflexivity. Qed.
