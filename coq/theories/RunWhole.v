(* Backuper::run put together with backuping::backup: what the items do to each other and to the exit status.
   (1) the events of item j are the walk of ITS OWN tree under ITS OWN filter - whatever happened to the items before it (missing,
       overlapping, failing hooks) does not change which filter or which tree is used;
   (2) a failing hook / an item that cannot be prepared makes the whole `vsb backup` run fail, whatever the retention phase
       (gc_groups) that follows it reports. *)
From Coq Require Import List Arith NArith Lia Bool.
Import ListNotations.
Require Import Walker Hooks Hooks2 RunStatus.

Lemma in_one_item_walk : forall i it j es,
  In (IWalk j es) (fst (one_item i it)) ->
  j = i /\ exists n, it_tree it = Some n /\ es = fst (walk (it_filter it) n [] true).
Proof.
  intros i it j es H. unfold one_item, body in H. cbn [fst] in H.
  apply in_app_or in H. destruct H as [H|H].
  - destruct (it_before it); cbn in H; [destruct H as [H|[]]; discriminate|contradiction].
  - apply in_app_or in H. destruct H as [H|H].
    + destruct (it_tree it) as [n|] eqn:En; cbn [fst] in H.
      * destruct H as [H|[]]. inversion H; subst. split; [reflexivity|]. exists n. split; reflexivity.
      * destruct H as [H|[]]. discriminate.
    + destruct (it_after it); cbn in H; [destruct H as [H|[]]; discriminate|contradiction].
Qed.

Theorem item_walk_is_own : forall its i j es,
  In (IWalk j es) (fst (run_items i its)) ->
  i <= j /\ exists n, it_tree (nth (j - i) its dflt) = Some n /\ es = fst (walk (it_filter (nth (j - i) its dflt)) n [] true).
Proof.
  induction its as [|it its IH]; intros i j es H; cbn [run_items] in H.
  - contradiction.
  - destruct (one_item i it) as [e abort] eqn:E1.
    assert (Hone : In (IWalk j es) e -> i <= j /\ exists n, it_tree (nth (j - i) (it :: its) dflt) = Some n /\
                     es = fst (walk (it_filter (nth (j - i) (it :: its) dflt)) n [] true)).
    { intros Hin. assert (Hin' : In (IWalk j es) (fst (one_item i it))) by (rewrite E1; exact Hin).
      apply in_one_item_walk in Hin'. destruct Hin' as [-> (n & Hn & He)]. split; [lia|].
      rewrite Nat.sub_diag. cbn [nth]. exists n. split; assumption. }
    destruct abort.
    + cbn [fst] in H. auto.
    + destruct (run_items (S i) its) as [e' a'] eqn:E2. cbn [fst] in H. apply in_app_or in H. destruct H as [H|H]; [auto|].
      assert (H' : In (IWalk j es) (fst (run_items (S i) its))) by (rewrite E2; exact H).
      apply IH in H'. destruct H' as [Hle (n & Hn & He)]. split; [lia|].
      replace (j - i) with (S (j - S i)) by lia. cbn [nth]. exists n. split; assumption.
Qed.

(* the walk events of a started item do not depend on the other items at all: replacing every other item by anything leaves them *)
Corollary item_walk_independent : forall its its' j es es',
  In (IWalk j es) (fst (run_items 0 its)) -> In (IWalk j es') (fst (run_items 0 its')) ->
  it_tree (nth j its dflt) = it_tree (nth j its' dflt) -> it_filter (nth j its dflt) = it_filter (nth j its' dflt) ->
  es = es'.
Proof.
  intros its its' j es es' H H' Ht Hf.
  apply item_walk_is_own in H. apply item_walk_is_own in H'. rewrite Nat.sub_0_r in *.
  destruct H as [_ (n & Hn & ->)]. destruct H' as [_ (n' & Hn' & ->)].
  rewrite Ht in Hn. rewrite Hn in Hn'. inversion Hn'; subst. rewrite Hf. reflexivity.
Qed.

Theorem failing_hook_fails_backup : forall its k j c l o d,
  fst (run_items 0 its) = concat (map (fun j => fst (one_item (0 + j) (nth j its dflt))) (seq 0 k)) -> j < k ->
  (it_before (nth j its dflt) = Some false \/ it_after (nth j its dflt) = Some false \/ it_tree (nth j its dflt) = None) ->
  backup_status c (run_ok its) l o d = false.
Proof.
  intros its k j c l o d Htr Hj Hbad.
  assert (Hr : run_ok its = false).
  { destruct Hbad as [Hb|[Ha|Hn]].
    - eapply failing_hook_fails_run; eauto.
    - eapply failing_hook_fails_run; eauto.
    - eapply unprepared_item_fails_run; eauto. }
  rewrite Hr. apply walk_error_fails_run.
Qed.

(* non-vacuity: a run of three items - the first missing, the second with a failing after hook, the third fine - starts all three, walks
   the second and the third, and fails *)
Example three_items :
  let t := NDir [] NoFault in
  let its := [Build_item None None None (fun _ => Some true); Build_item None (Some false) (Some t) (fun _ => Some true);
              Build_item (Some true) None (Some t) (fun _ => Some false)] in
  (exists es, In (IWalk 2 es) (fst (run_items 0 its))) /\ run_ok its = false /\ backup_status true (run_ok its) true true true = false.
Proof. cbv zeta. split; [|split]; [eexists; vm_compute; right; right; right; right; left; reflexivity | reflexivity | reflexivity]. Qed.
Print Assumptions item_walk_is_own.
Print Assumptions failing_hook_fails_backup.
