(* PROTOTYPE (round 0): soundness of the C12 checker w.r.t. the crash semantics *)
From Coq Require Import List Arith NArith Lia Bool.
Import ListNotations.
Require Import Durable.

Definition pubid (s : st) (id : nat) : Prop := exists d, oget id (objs s) = Some d /\ pub d = true.

Record INV (s : st) : Prop := {
  J0 : forall id d, oget id (objs s) = Some d -> pub d = true -> dir_sealed d = true;
  J1 : forall n id, In (n, id) (gp s) -> is_final n = true -> pubid s id;
  J4 : forall n id, In (n, id) (gv s) -> is_final n = true -> pubid s id;
  J2 : forall n id, In (GAdd n id) (gpend s) -> fst n = true;
  J3 : forall a b, In (GRen a b) (gpend s) ->
         fst a = true /\ is_final b = true /\ lookup a (gp s) = None /\ forall id, In (GAdd a id) (gpend s) -> pubid s id;
  J6 : forall id d, oget id (objs s) = Some d -> id < next s;
  J7 : gpend s = [] -> gp s = gv s
}.

(* ---- small facts ---- *)
Lemma lookup_In : forall A (n : name) (l : list (name * A)) x, lookup n l = Some x -> In (n, x) l.
Proof.
  intros A n l. induction l as [|[m y] l IH]; intros x Hl; cbn [lookup] in Hl; [discriminate|].
  destruct (name_eqb_spec n m) as [->|]; [inversion Hl; subst; now left | right; auto].
Qed.
Lemma In_lookup_some : forall A (n : name) (l : list (name * A)) x, In (n, x) l -> lookup n l <> None.
Proof.
  intros A n l. induction l as [|[m y] l IH]; intros x Hin; [destruct Hin|]. cbn [lookup].
  destruct (name_eqb_spec n m); [discriminate|]. destruct Hin as [E|Hin]; [inversion E; congruence | eauto].
Qed.
Lemma In_remove_n : forall A (n : name) (l : list (name * A)) e, In e (remove_n n l) -> In e l.
Proof. intros A n l e H. unfold remove_n in H. apply filter_In in H. tauto. Qed.

Lemma oget_oset_same : forall id d l, oget id (oset id d l) = Some d.
Proof.
  intros id d l. induction l as [|[i x] l IH]; cbn [oset oget]; [now rewrite Nat.eqb_refl|].
  destruct (Nat.eqb_spec i id) as [->|Hne]; cbn [oget]; [now rewrite Nat.eqb_refl|].
  destruct (Nat.eqb_spec i id); [congruence|exact IH].
Qed.
Lemma oget_oset_other : forall id j d l, j <> id -> oget j (oset id d l) = oget j l.
Proof.
  intros id j d l Hne. induction l as [|[i x] l IH]; cbn [oset oget].
  - destruct (Nat.eqb_spec id j); [congruence|reflexivity].
  - destruct (Nat.eqb_spec i id) as [->|Hi]; cbn [oget].
    + destruct (Nat.eqb_spec id j); [congruence|reflexivity].
    + destruct (Nat.eqb_spec i j); [reflexivity|exact IH].
Qed.

(* ---- crash groups: where a binding in a crash state can come from ---- *)
Definition origin (gp0 : list (name * nat)) (allp : list gop) (n : name) (id : nat) : Prop :=
  In (n, id) gp0 \/
  (fst n = true /\ In (GAdd n id) allp) \/
  (is_final n = true /\ exists a, In (GRen a n) allp /\ In (GAdd a id) allp).

Lemma crash_origin : forall gp0 allp,
  (forall n id, In (GAdd n id) allp -> fst n = true) ->
  (forall a b, In (GRen a b) allp -> fst a = true /\ is_final b = true /\ lookup a gp0 = None) ->
  forall pend g0, (forall o, In o pend -> In o allp) ->
  (forall n id, In (n, id) g0 -> origin gp0 allp n id) ->
  forall g, In g (crash_groups g0 pend) -> forall n id, In (n, id) g -> origin gp0 allp n id.
Proof.
  intros gp0 allp HA HR pend. induction pend as [|o pend IH]; intros g0 Hsub Hg0 g Hg n id Hin; cbn [crash_groups] in Hg.
  - destruct Hg as [<-|[]]. auto.
  - assert (Hsub' : forall o', In o' pend -> In o' allp) by (intros; apply Hsub; now right).
    apply in_app_or in Hg as [Hg|Hg]; [eapply IH; eauto|].
    eapply (IH (apply_gop g0 o)); eauto. clear g Hg n id Hin.
    intros n id Hin. assert (Ho : In o allp) by (apply Hsub; now left).
    destruct o as [m i|a b|m]; cbn [apply_gop] in Hin.
    + destruct Hin as [E|Hin]; [inversion E; subst; right; left; split; [eapply HA; eauto|auto] | apply Hg0; eapply In_remove_n; eauto].
    + destruct (lookup a g0) as [ia|] eqn:El; [|auto].
      destruct Hin as [E|Hin]; [|apply Hg0; eapply In_remove_n; eapply In_remove_n; eauto].
      inversion E; subst n id. destruct (HR _ _ Ho) as (Hta & Hfb & Hnone).
      right. right. split; auto. exists a. split; auto.
      apply lookup_In in El. destruct (Hg0 _ _ El) as [Hgp|[[_ Hadd]|[Hfin _]]]; auto.
      * exfalso. eapply In_lookup_some; eauto.
      * unfold is_final in Hfin. rewrite Hta in Hfin. discriminate.
    + apply Hg0. eapply In_remove_n; eauto.
Qed.

(* C12, first half: the invariant gives safety in every crash state *)
Theorem INV_DurableSafe : forall s, INV s -> DurableSafe s.
Proof.
  intros s I g n id Hg Hl Hfin. apply lookup_In in Hl.
  assert (Ho : origin (gp s) (gpend s) n id).
  { eapply (crash_origin (gp s) (gpend s)); eauto.
    - apply (J2 s I).
    - intros a b Hr. destruct (J3 s I a b Hr) as (A & B & C & _). auto.
    - intros n0 id0 H0. now left. }
  assert (Hp : pubid s id).
  { destruct Ho as [Hgp|[[Ht _]|[_ (a & Hr & Ha)]]].
    - eapply J1; eauto.
    - unfold is_final in Hfin. rewrite Ht in Hfin. discriminate.
    - destruct (J3 s I a n Hr) as (_ & _ & _ & Hall). auto. }
  destruct Hp as (d & Hd & Hpub). exists d. split; auto. eapply J0; eauto.
Qed.

(* ---- the invariant is preserved by every checked step ---- *)
Lemma pubid_upd : forall s id d d' gv' gp' gpend' j,
  oget id (objs s) = Some d -> (pub d = true -> pub d' = true) ->
  pubid s j -> pubid {| objs := oset id d' (objs s); gv := gv'; gp := gp'; gpend := gpend'; next := next s |} j.
Proof.
  intros s id d d' gv' gp' gpend' j Hd Hp (dj & Hj & Hpj). unfold pubid; cbn [objs].
  destruct (Nat.eq_dec j id) as [->|Hne].
  - exists d'. rewrite oget_oset_same. split; auto. apply Hp. congruence.
  - exists dj. rewrite oget_oset_other; auto.
Qed.

Lemma upd_INV : forall s id d d', INV s -> oget id (objs s) = Some d ->
  (pub d = true -> pub d' = true) -> (pub d' = true -> dir_sealed d' = true) ->
  INV {| objs := oset id d' (objs s); gv := gv s; gp := gp s; gpend := gpend s; next := next s |}.
Proof.
  intros s id d d' I Hd Hp Hs. constructor; cbn [objs gv gp gpend next].
  - intros j dj Hj Hpj. destruct (Nat.eq_dec j id) as [->|Hne].
    + rewrite oget_oset_same in Hj. inversion Hj; subst. auto.
    + rewrite oget_oset_other in Hj; auto. eapply J0; eauto.
  - intros n j Hin Hf. eapply pubid_upd; eauto. eapply J1; eauto.
  - intros n j Hin Hf. eapply pubid_upd; eauto. eapply J4; eauto.
  - apply (J2 s I).
  - intros a b Hr. destruct (J3 s I a b Hr) as (A & B & C & D). repeat split; auto.
    intros j Hj. eapply pubid_upd; eauto.
  - intros j dj Hj. destruct (Nat.eq_dec j id) as [->|Hne].
    + eapply J6; eauto.
    + rewrite oget_oset_other in Hj; auto. eapply J6; eauto.
  - apply (J7 s I).
Qed.

Lemma file_sealed_fsync : forall x, file_sealed x = true ->
  file_sealed {| exists_v := true; vlen := vlen x; plen := vlen x; entry_p := entry_p x |} = true.
Proof.
  intros x H. unfold file_sealed in *. cbn. apply andb_true_iff in H as [H _]. apply andb_true_iff in H as [_ H].
  rewrite H, Nat.eqb_refl. reflexivity.
Qed.
Lemma file_sealed_dirsync : forall x, file_sealed x = true ->
  file_sealed {| exists_v := exists_v x; vlen := vlen x; plen := plen x; entry_p := exists_v x |} = true.
Proof.
  intros x H. unfold file_sealed in *. cbn. apply andb_true_iff in H as [H H3]. apply andb_true_iff in H as [H1 _].
  rewrite H1, H3. reflexivity.
Qed.

Lemma existsb_false_In : forall A (f : A -> bool) l x, existsb f l = false -> In x l -> f x = false.
Proof.
  intros A f l x He Hin. destruct (f x) eqn:E; auto. exfalso.
  assert (existsb f l = true) by (apply existsb_exists; eauto). congruence.
Qed.

Theorem step_INV : forall s o s', INV s -> check s o = true -> step s o = Some s' -> INV s'.
Proof.
  intros s o s' I Hc Hs. destruct o as [n|n f|n f k|n f|n|a b| |n| |]; cbn [step] in Hs; cbn [check] in Hc.
  - (* Mkdir *)
    destruct (lookup n (gv s)) eqn:El; [discriminate|]. inversion Hs; subst s'. clear Hs.
    apply andb_true_iff in Hc as [Hc Hnoadd]. apply andb_true_iff in Hc as [Htemp Hnoren].
    apply negb_true_iff in Hnoadd. apply negb_true_iff in Hnoren.
    assert (Hfresh : forall j dj, oget j (objs s) = Some dj -> j <> next s) by (intros j dj Hj; pose proof (J6 s I j dj Hj); lia).
    assert (Hpm : forall j, pubid s j ->
              pubid {| objs := oset (next s) {| fmeta := nofile; fdata := nofile; pub := false |} (objs s);
                       gv := (n, next s) :: gv s; gp := gp s; gpend := gpend s ++ [GAdd n (next s)]; next := S (next s) |} j).
    { intros j (dj & Hj & Hpj). exists dj. cbn [objs]. rewrite oget_oset_other; eauto. }
    constructor; cbn [objs gv gp gpend next].
    + intros j dj Hj Hpj. destruct (Nat.eq_dec j (next s)) as [->|Hne].
      * rewrite oget_oset_same in Hj. inversion Hj; subst. discriminate.
      * rewrite oget_oset_other in Hj; auto. eapply J0; eauto.
    + intros m j Hin Hf. apply Hpm. eapply J1; eauto.
    + intros m j [E|Hin] Hf; [inversion E; subst; unfold is_final in Hf; rewrite Htemp in Hf; discriminate|].
      apply Hpm. eapply J4; eauto.
    + intros m j Hin. apply in_app_or in Hin as [Hin|[E|[]]]; [eapply J2; eauto | inversion E; subst; auto].
    + intros a b Hr. apply in_app_or in Hr as [Hr|[E|[]]]; [|discriminate].
      destruct (J3 s I a b Hr) as (A & B & C & D). repeat split; auto.
      intros j Hj. apply in_app_or in Hj as [Hj|[E|[]]]; [apply Hpm; auto|].
      inversion E; subst a j. exfalso.
      pose proof (existsb_false_In _ _ _ _ Hnoren Hr) as Hx. cbn in Hx.
      destruct (name_eqb_spec n n); congruence.
    + intros j dj Hj. destruct (Nat.eq_dec j (next s)) as [->|Hne]; [lia|].
      rewrite oget_oset_other in Hj; auto. pose proof (J6 s I j dj Hj). lia.
    + intros E. destruct (gpend s); discriminate.
  - (* Create *)
    unfold pubof in Hc. destruct (lookup n (gv s)) as [id|] eqn:El; [|discriminate].
    destruct (oget id (objs s)) as [d|] eqn:Ed; [|discriminate]. apply negb_true_iff in Hc.
    destruct (exists_v (getf d f)); [discriminate|]. inversion Hs; subst s'.
    apply (upd_INV s id d _ I Ed); destruct f; cbn [setf pub]; congruence.
  - (* Write *)
    unfold pubof in Hc. destruct (lookup n (gv s)) as [id|] eqn:El; [|discriminate].
    destruct (oget id (objs s)) as [d|] eqn:Ed; [|discriminate]. apply negb_true_iff in Hc.
    destruct (negb (exists_v (getf d f))); [discriminate|]. inversion Hs; subst s'.
    apply (upd_INV s id d _ I Ed); destruct f; cbn [setf pub]; congruence.
  - (* Fsync *)
    destruct (lookup n (gv s)) as [id|] eqn:El; [|discriminate].
    destruct (oget id (objs s)) as [d|] eqn:Ed; [|discriminate].
    destruct (negb (exists_v (getf d f))); [discriminate|]. inversion Hs; subst s'.
    apply (upd_INV s id d _ I Ed); [destruct f; cbn [setf pub]; auto|].
    intros Hp. assert (Hp0 : pub d = true) by (destruct f; cbn [setf pub] in Hp; auto).
    pose proof (J0 s I id d Ed Hp0) as Hsd. unfold dir_sealed in *. apply andb_true_iff in Hsd as [S1 S2].
    destruct f; cbn [setf getf fmeta fdata]; apply andb_true_iff; split; auto using file_sealed_fsync.
  - (* FsyncDir *)
    destruct (lookup n (gv s)) as [id|] eqn:El; [|discriminate].
    destruct (oget id (objs s)) as [d|] eqn:Ed; [|discriminate]. inversion Hs; subst s'.
    apply (upd_INV s id d _ I Ed); [cbn [pub]; auto|]. cbn [pub]. intros Hp.
    pose proof (J0 s I id d Ed Hp) as Hsd. unfold dir_sealed in *. apply andb_true_iff in Hsd as [S1 S2].
    cbn [fmeta fdata]. apply andb_true_iff; split; auto using file_sealed_dirsync.
  - (* Rename *)
    destruct (lookup a (gv s)) as [id|] eqn:Ela; [|discriminate].
    destruct (lookup b (gv s)) eqn:Elb; [discriminate|].
    destruct (oget id (objs s)) as [d|] eqn:Ed; [|discriminate]. inversion Hs; subst s'. clear Hs.
    apply andb_true_iff in Hc as [Hc Hlast]. apply andb_true_iff in Hc as [Hc Hgp].
    apply andb_true_iff in Hc as [Hta Hfb]. apply andb_true_iff in Hlast as [Hsealed Hadds].
    destruct (lookup a (gp s)) eqn:Egp; [discriminate|].
    set (d' := {| fmeta := fmeta d; fdata := fdata d; pub := true |}).
    assert (Hsd' : dir_sealed d' = true) by exact Hsealed.
    assert (Hpm : forall gv' gpend' j, pubid s j -> pubid {| objs := oset id d' (objs s); gv := gv'; gp := gp s; gpend := gpend'; next := next s |} j).
    { intros. eapply pubid_upd; eauto. }
    assert (Hnew : forall gv' gpend', pubid {| objs := oset id d' (objs s); gv := gv'; gp := gp s; gpend := gpend'; next := next s |} id).
    { intros. exists d'. cbn [objs]. rewrite oget_oset_same. auto. }
    constructor; cbn [objs gv gp gpend next].
    + intros j dj Hj Hpj. destruct (Nat.eq_dec j id) as [->|Hne].
      * rewrite oget_oset_same in Hj. inversion Hj; subst. auto.
      * rewrite oget_oset_other in Hj; auto. eapply J0; eauto.
    + intros m j Hin Hf. apply Hpm. eapply J1; eauto.
    + intros m j [E|Hin] Hf; [inversion E; subst; apply Hnew|]. apply Hpm. eapply J4; eauto. eapply In_remove_n; eauto.
    + intros m j Hin. apply in_app_or in Hin as [Hin|[E|[]]]; [eapply J2; eauto | discriminate].
    + intros a0 b0 Hr. apply in_app_or in Hr as [Hr|[E|[]]].
      * destruct (J3 s I a0 b0 Hr) as (A & B & C & D). repeat split; auto.
        intros j Hj. apply in_app_or in Hj as [Hj|[E|[]]]; [apply Hpm; auto | discriminate].
      * inversion E; subst a0 b0. repeat split; auto.
        intros j Hj. apply in_app_or in Hj as [Hj|[E2|[]]]; [|discriminate].
        rewrite forallb_forall in Hadds. specialize (Hadds _ Hj). cbn in Hadds.
        destruct (name_eqb_spec a a); [|congruence]. cbn in Hadds. apply Nat.eqb_eq in Hadds. subst j. apply Hnew.
    + intros j dj Hj. destruct (Nat.eq_dec j id) as [->|Hne]; [eapply J6; eauto|].
      rewrite oget_oset_other in Hj; auto. eapply J6; eauto.
    + intros E. destruct (gpend s); discriminate.
  - (* FsyncGroup *)
    inversion Hs; subst s'. constructor; cbn [objs gv gp gpend next]; try (intros; contradiction).
    + apply (J0 s I).
    + intros n id Hin Hf. destruct (J4 s I n id Hin Hf) as (d & Hd & Hp). exists d; auto.
    + intros n id Hin Hf. destruct (J4 s I n id Hin Hf) as (d & Hd & Hp). exists d; auto.
    + apply (J6 s I).
    + reflexivity.
  - (* RmTemp: only a temporary name disappears from the volatile listing; a deletion is pending *)
    destruct (lookup n (gv s)) as [i|]; [|discriminate]. inversion Hs; subst s'. clear Hs.
    constructor; cbn [objs gv gp gpend next].
    + apply (J0 s I).
    + intros m id Hin Hf. destruct (J1 s I m id Hin Hf) as (d & Hd & Hp). exists d; auto.
    + intros m id Hin Hf. apply In_remove_n in Hin. destruct (J4 s I m id Hin Hf) as (d & Hd & Hp). exists d; auto.
    + intros m id Hin. apply in_app_or in Hin as [Hin|[E|[]]]; [eapply J2; eauto|discriminate].
    + intros a b Hin. apply in_app_or in Hin as [Hin|[E|[]]]; [|discriminate].
      destruct (J3 s I a b Hin) as (A & B & C & D). split; [exact A|]. split; [exact B|]. split; [exact C|].
      intros id Hid. apply in_app_or in Hid as [Hid|[E|[]]]; [|discriminate].
      destruct (D id Hid) as (d & Hd & Hp). exists d; auto.
    + apply (J6 s I).
    + intro E. destruct (gpend s); discriminate.
  - inversion Hs; subst; auto.
  - inversion Hs; subst; auto.
Qed.

(* C12: a trace accepted by the checker is safe at every crash point, and at every point where an older group
   starts to be removed or success is reported nothing is left unpersisted in the group directory *)
Theorem durable_ok_sound : forall ops s s', INV s -> run s ops = Some s' ->
  INV s' /\ forall k sk, run s (firstn k ops) = Some sk -> DurableSafe sk.
Proof.
  induction ops as [|o ops IH]; intros s s' I Hr; cbn [run] in Hr.
  - inversion Hr; subst. split; auto. intros k sk Hk. destruct k; cbn in Hk; inversion Hk; subst; now apply INV_DurableSafe.
  - destruct (check s o) eqn:Hc; [|discriminate]. destruct (step s o) as [s1|] eqn:Hs; [|discriminate].
    pose proof (step_INV _ _ _ I Hc Hs) as I1. destruct (IH _ _ I1 Hr) as [I' Hall]. split; auto.
    intros k sk Hk. destruct k as [|k]; cbn [firstn run] in Hk.
    + inversion Hk; subst. now apply INV_DurableSafe.
    + rewrite Hc, Hs in Hk. eauto.
Qed.

Lemma run_app : forall l s0 s2 rest, run s0 l = Some s2 -> run s0 (l ++ rest) = run s2 rest.
Proof.
  induction l as [|x l IHl]; intros s0 s2 rest H0; cbn [run app] in *; [inversion H0; auto|].
  destruct (check s0 x); [|discriminate]. destruct (step s0 x); [|discriminate]. eauto.
Qed.

(* C12, second half: when removal of an older group starts, or success is reported, every name of the group
   directory - in particular the backup just published - is in every crash state *)
Theorem report_after_persist : forall ops1 o ops2 s s1, INV s -> run s ops1 = Some s1 -> (o = RmOther \/ o = ReportOk) ->
  durable_ok s (ops1 ++ o :: ops2) = true -> forall n, lookup n (gv s1) <> None -> Published s1 n.
Proof.
  intros ops1 o ops2 s s1 I Hr Ho Hok n Hn g Hgc. unfold durable_ok in Hok.
  rewrite (run_app _ _ _ _ Hr) in Hok. cbn [run] in Hok.
  assert (Hg : gpend s1 = []).
  { destruct Ho as [-> | ->]; cbn [check] in Hok; destruct (gpend s1); auto; discriminate. }
  destruct (durable_ok_sound _ _ _ I Hr) as [I1 _].
  rewrite Hg in Hgc. cbn in Hgc. destruct Hgc as [<-|[]]. rewrite (J7 s1 I1 Hg). exact Hn.
Qed.
Print Assumptions durable_ok_sound.
Print Assumptions report_after_persist.

(* the initial state of the examples satisfies the invariant, so the theorems apply to vsb's sequence *)
Example s_init_INV : INV s_init.
Proof.
  constructor; cbn.
  - intros id d H. destruct id; inversion H; subst. reflexivity.
  - intros n id [E|[]] _. inversion E; subst. exists {| fmeta := sealedf; fdata := sealedf; pub := true |}. auto.
  - intros n id [E|[]] _. inversion E; subst. exists {| fmeta := sealedf; fdata := sealedf; pub := true |}. auto.
  - intros ? ? [].
  - intros ? ? [].
  - intros id d H. destruct id; inversion H. lia.
  - reflexivity.
Qed.
