(* PROTOTYPE (round 0): C16 - the storage operations of two runs under the non-blocking exclusive lock never interleave:
   in every schedule the issue order is all operations of one run, then all operations of the other *)
From Coq Require Import List Arith Lia Bool.
Import ListNotations.
Require Import Lock.

Definition owned (b : bool) (t : list (bool * nat)) : Prop := forall x, In x t -> fst x = b.

Record Ser (s : st) : Prop := {
  ser_inv : Inv s;
  ser_split : exists b0 t0 t1, trace s = t0 ++ t1 /\ owned b0 t0 /\ owned (negb b0) t1 /\ (t1 <> [] -> get s b0 = Done)
}.

Lemma get_set_same : forall s b x tr, get (set s b x tr) b = x.
Proof. intros s [|] x tr; reflexivity. Qed.
Lemma get_set_other : forall s b x tr, get (set s b x tr) (negb b) = get s (negb b).
Proof. intros s [|] x tr; reflexivity. Qed.
Lemma trace_set : forall s b x tr, trace (set s b x tr) = tr.
Proof. intros s [|] x tr; reflexivity. Qed.

(* what one step does: it changes only the stepping process, and appends at most its own next operation *)
Lemma step_cases : forall n s b,
  get (step n s b) (negb b) = get s (negb b) /\
  (get s b = Done -> get (step n s b) b = Done) /\
  (trace (step n s b) = trace s \/ exists k, get s b = Holding (S k) /\ trace (step n s b) = trace s ++ [(b, k)]).
Proof.
  intros n s b. unfold step. destruct (get s b) as [|[|k]| |] eqn:E.
  - destruct (holding (get s (negb b))); rewrite get_set_other, trace_set;
      (split; [reflexivity|split; [intro; discriminate|left; reflexivity]]).
  - rewrite get_set_other, trace_set. split; [reflexivity|split; [intro; discriminate|left; reflexivity]].
  - rewrite get_set_other, trace_set. split; [reflexivity|split; [intro; discriminate|right; exists k; split; reflexivity]].
  - split; [reflexivity|split; [intro; exact E|left; reflexivity]].
  - split; [reflexivity|split; [intro; discriminate|left; reflexivity]].
Qed.

Lemma get_cases : forall s b b', get s b' = if Bool.eqb b' b then get s b else get s (negb b).
Proof. intros s [|] [|]; reflexivity. Qed.

Ltac fin := repeat split; auto; try congruence; try (intros ? []; fail); try (intros ? [<-|[]]; reflexivity);
            try (intros ? Hx; apply in_app_or in Hx as [Hx|[<-|[]]]; auto; fail).

Lemma no_ops_yet : forall s b0 t0 t1, Inv s -> trace s = t0 ++ t1 -> owned b0 t0 ->
  (get s b0 = NotStarted \/ get s b0 = Refused) -> t0 = [].
Proof.
  intros s b0 t0 t1 (_ & N0 & N1) Et H0 E0. destruct t0 as [|x t0]; auto. exfalso.
  assert (Hx : In x (trace s)) by (rewrite Et; now left). specialize (H0 x (or_introl eq_refl)).
  destruct x as [xb xk]. cbn in H0. subst xb.
  destruct b0; cbn [get] in E0; [eapply N1|eapply N0]; eauto; tauto.
Qed.

Lemma step_Ser : forall n s b, Ser s -> Ser (step n s b).
Proof.
  intros n s b [HI (b0 & t0 & t1 & Et & H0 & H1 & Hd)]. constructor; [now apply step_Inv|].
  destruct (step_cases n s b) as (Ho & Hdone & [Etr|(k & Eh & Etr)]).
  - exists b0, t0, t1. rewrite Etr. split; [exact Et|]. split; [exact H0|]. split; [exact H1|]. intro Hne. specialize (Hd Hne).
    destruct (Bool.eqb_spec b0 b) as [->|Hb]; [now apply Hdone|].
    assert (b0 = negb b) as -> by (destruct b0, b; try reflexivity; congruence). now rewrite Ho.
  - rewrite Etr, Et. destruct (Bool.eqb_spec b b0) as [->|Hb].
    + destruct t1 as [|y t1].
      * exists b0, (t0 ++ [(b0, k)]), []. rewrite !app_nil_r. fin.
      * exfalso. rewrite Hd in Eh by discriminate. discriminate.
    + assert (b = negb b0) as -> by (destruct b0, b; try reflexivity; congruence).
      destruct t1 as [|y t1].
      * destruct (get s b0) eqn:E0.
        -- assert (t0 = []) by (eapply no_ops_yet; eauto). subst t0.
           exists (negb b0), [(negb b0, k)], []. rewrite Bool.negb_involutive. cbn [app]. fin.
        -- exfalso. destruct HI as (Hex & _). apply Hex. destruct b0; cbn [get negb] in *; rewrite E0, Eh; auto.
        -- exists b0, t0, [(negb b0, k)]. rewrite app_nil_r. fin.
           intros _. destruct (step_cases n s (negb b0)) as (Ho' & _). rewrite Bool.negb_involutive in Ho'. now rewrite Ho'.
        -- assert (t0 = []) by (eapply no_ops_yet; eauto). subst t0.
           exists (negb b0), [(negb b0, k)], []. rewrite Bool.negb_involutive. cbn [app]. fin.
      * exists b0, t0, ((y :: t1) ++ [(negb b0, k)]). rewrite <- app_assoc. fin.
        intros _. rewrite <- Hd by discriminate. destruct (step_cases n s (negb b0)) as (Ho' & _). rewrite Bool.negb_involutive in Ho'. exact Ho'.
Qed.

Theorem runs_do_not_interleave : forall n sched, exists b0 t0 t1,
  trace (run n sched) = t0 ++ t1 /\ owned b0 t0 /\ owned (negb b0) t1.
Proof.
  intros n sched.
  assert (H : forall s, Ser s -> Ser (fold_left (step n) sched s)).
  { induction sched as [|b r IH]; intros s Hs; cbn [fold_left]; auto. apply IH. now apply step_Ser. }
  destruct (H {| p0 := NotStarted; p1 := NotStarted; trace := [] |}) as [_ (b0 & t0 & t1 & E & A & B & _)].
  - constructor.
    + repeat split; cbn; auto. intros [A B]; discriminate.
    + exists false, [], []. repeat split; cbn; auto; try (intros x []). congruence.
  - exists b0, t0, t1. auto.
Qed.
Print Assumptions runs_do_not_interleave.
