(* PROTOTYPE (round 0, not part of the deliverable): Layer-A restore model, faithful to
   restoring/plan.rs and restoring/restorer.rs, used to confirm findings F2/F5 inside Coq. *)
From Coq Require Import List Arith NArith ZArith Lia Bool.
Import ListNotations.
Open Scope N_scope.

Definition path := list N.           (* components below "/" *)
Definition bytes := list N.
Definition hash := list N.           (* instance: H := id *)
Definition H (d : bytes) : hash := d.

Fixpoint list_eqb (a b : list N) : bool :=
  match a, b with
  | [], [] => true
  | x :: a', y :: b' => (x =? y) && list_eqb a' b'
  | _, _ => false
  end.
Definition mem (p : path) (l : list path) := existsb (list_eqb p) l.
Definition remove_p (p : path) (l : list path) := filter (fun q => negb (list_eqb p q)) l.

Record meta := { m_mode : N; m_uid : N; m_gid : N; m_mtime : Z }.
Record mline := { l_unique : bool; l_hash : hash; l_size : N; l_path : path }.
Inductive entry :=
| EDir (p : path) (m : meta)
| EReg (p : path) (m : meta) (declared : N) (data : bytes)
| ESym (p : path) (m : meta) (target : bytes).
Record backup := { b_name : N; b_manifest : list mline; b_archive : list entry }.

(* ---------------- plan ---------------- *)
Record rfile := { rf_hash : hash; rf_size : N; rf_paths : list path }.
Definition step := (backup * list (path * rfile))%type.

Fixpoint tf_remove (h : hash) (tf : list (hash * list path)) : option (list path) * list (hash * list path) :=
  match tf with
  | [] => (None, [])
  | (h', ps) :: tf' => if list_eqb h h' then (Some ps, tf')
                       else let '(r, t) := tf_remove h tf' in (r, (h', ps) :: t)
  end.
Fixpoint tf_push (h : hash) (p : path) (tf : list (hash * list path)) :=
  match tf with
  | [] => [(h, [p])]
  | (h', ps) :: tf' => if list_eqb h h' then (h', ps ++ [p]) :: tf' else (h', ps) :: tf_push h p tf'
  end.
Definition map_insert (p : path) (f : rfile) (m : list (path * rfile)) :=
  (p, f) :: filter (fun '(q, _) => negb (list_eqb p q)) m.
Fixpoint map_get (p : path) (m : list (path * rfile)) : option rfile :=
  match m with [] => None | (q, f) :: m' => if list_eqb p q then Some f else map_get p m' end.

Definition plan_target (b : backup) :=
  let own := filter (fun l => l_unique l || (l_size l =? 0)) (b_manifest b) in
  let ext := filter (fun l => negb (l_unique l || (l_size l =? 0))) (b_manifest b) in
  let tf0 := fold_left (fun tf l => tf_push (l_hash l) (l_path l) tf) ext [] in
  fold_left (fun '(tf, exts, m) l =>
               let '(r, tf') := tf_remove (l_hash l) tf in
               let ps := match r with Some ps => ps | None => [] end in
               (tf', exts ++ ps, map_insert (l_path l) {| rf_hash := l_hash l; rf_size := l_size l; rf_paths := ps ++ [l_path l] |} m))
            own (tf0, [], []).

Definition plan_older (b : backup) (tf : list (hash * list path)) (exts : list path) :=
  fold_left (fun '(tf, exts, m) l =>
               match tf with [] => (tf, exts, m) | _ =>
               if l_unique l then
                 let '(r, tf') := tf_remove (l_hash l) tf in
                 match r with
                 | Some ps => (tf', exts ++ ps, map_insert (l_path l) {| rf_hash := l_hash l; rf_size := l_size l; rf_paths := ps |} m)
                 | None => (tf, exts, m)
                 end
               else (tf, exts, m) end)
            (b_manifest b) (tf, exts, []).

(* [older] : backups before the target, newest first *)
Fixpoint plan_rest (older : list backup) (tf : list (hash * list path)) (exts : list path) (steps : list step) :=
  match older with
  | [] => (steps, exts, tf)
  | b :: older' =>
    match tf with
    | [] => (steps, exts, tf)
    | _ => let '(tf', exts', m) := plan_older b tf exts in
           plan_rest older' tf' exts' (match m with [] => steps | _ => steps ++ [(b, m)] end)
    end
  end.

Fixpoint split_at (name : N) (rev_group : list backup) : option (backup * list backup) :=
  match rev_group with
  | [] => None
  | b :: r => if b_name b =? name then Some (b, r) else split_at name r
  end.

Definition plan (group : list backup) (name : N) :=
  match split_at name (rev group) with
  | None => None
  | Some (b, older) =>
    let '(tf, exts, m) := plan_target b in
    let '(steps, exts', tf') := plan_rest older tf exts [(b, m)] in
    Some (steps, exts', concat (map snd tf'))
  end.

(* ---------------- exec ---------------- *)
Inductive rnode := RFile (d : bytes) (m : option meta) | RDir (m : option meta) | RSym (t : bytes) (m : meta).
Definition tree := list (path * rnode).
Fixpoint t_get (p : path) (t : tree) : option rnode :=
  match t with [] => None | (q, n) :: t' => if list_eqb p q then Some n else t_get p t' end.
Definition parent (p : path) : path := removelast p.
Definition parent_ok (p : path) (t : tree) : bool :=
  match parent p with [] => true | pp => match t_get pp t with Some (RDir _) => true | _ => false end end.
Definition create (p : path) (n : rnode) (t : tree) : option tree :=
  match p with [] => None | _ =>
  match t_get p t with Some _ => None | None => if parent_ok p t then Some ((p, n) :: t) else None end end.
Fixpoint t_setmeta (p : path) (m : meta) (t : tree) : option tree :=
  match t with
  | [] => None
  | (q, n) :: t' =>
    if list_eqb p q then
      Some ((q, match n with RFile d _ => RFile d (Some m) | RDir _ => RDir (Some m) | RSym x _ => RSym x m end) :: t')
    else match t_setmeta p m t' with Some t'' => Some ((q, n) :: t'') | None => None end
  end.

Record rs := { tr : tree; pre : list path; pending : list path; restored : list path;
               sched : list (path * meta); ok : bool }.

(* ancestors of p, nearest first, excluding root *)
Fixpoint ancestors (fuel : nat) (p : path) : list path :=
  match fuel with O => [] | S f => match parent p with [] => [] | pp => pp :: ancestors f pp end end.

(* restore_directories: create missing ancestors; returns those created *)
Definition restore_directories (p : path) (t : tree) : option (tree * list path) :=
  let missing := filter (fun a => match t_get a t with None => true | Some _ => false end) (ancestors (length p) p) in
  (* an existing non-directory ancestor makes mkdir of the child fail with ENOTDIR *)
  fold_right (fun a acc => match acc with None => None | Some (t, cr) =>
                match create a (RDir None) t with Some t' => Some (t', a :: cr) | None => None end end)
             (Some (t, [])) missing.

Definition take (n : N) (d : bytes) : bytes := firstn (N.to_nat n) d.

Definition restore_files (p : path) (m : meta) (declared : N) (data : bytes) (info : rfile)
           (is_target : bool) (s : rs) : option rs :=
  let real := take (N.min (rf_size info) declared) data in
  let out := real ++ repeat 0 (N.to_nat (rf_size info) - length real) in
  let step1 := fold_left (fun acc q => match acc with None => None | Some s =>
      let s1 := if is_target && list_eqb q p then Some s
                else if mem q (pending s) then
                  if is_target then
                    match restore_directories q (tr s) with
                    | Some (t', cr) => Some {| tr := t'; pre := pre s ++ cr; pending := remove_p q (pending s);
                                               restored := q :: restored s; sched := sched s; ok := ok s |}
                    | None => None end
                  else Some {| tr := tr s; pre := pre s; pending := remove_p q (pending s);
                               restored := q :: restored s; sched := sched s; ok := ok s |}
                else None (* unwrap() panic *) in
      match s1 with None => None | Some s1 =>
        match create q (RFile out None) (tr s1) with
        | Some t' => Some {| tr := t'; pre := pre s1; pending := pending s1; restored := restored s1; sched := sched s1; ok := ok s1 |}
        | None => None end end end) (rf_paths info) (Some s) in
  match step1 with None => None | Some s2 =>
    if negb (N.of_nat (length real) =? rf_size info) then None
    else if negb (list_eqb (H real) (rf_hash info)) then None
    else if is_target && mem p (rf_paths info) then
      match t_setmeta p m (tr s2) with
      | Some t' => Some {| tr := t'; pre := pre s2; pending := pending s2; restored := restored s2; sched := sched s2; ok := ok s2 |}
      | None => None end
    else Some s2
  end.

Definition do_entry (files : list (path * rfile)) (missing : list path) (is_target : bool) (e : entry) (s : rs) : option rs :=
  match e with
  | EDir p m =>
    if is_target then
      let s1 := if mem p (pre s)
                then Some {| tr := tr s; pre := remove_p p (pre s); pending := pending s; restored := restored s; sched := sched s; ok := ok s |}
                else match create p (RDir None) (tr s) with
                     | Some t' => Some {| tr := t'; pre := pre s; pending := pending s; restored := restored s; sched := sched s; ok := ok s |}
                     | None => None end in
      match s1 with None => None | Some s1 =>
        Some {| tr := tr s1; pre := pre s1; pending := pending s1; restored := restored s1; sched := sched s1 ++ [(p, m)]; ok := ok s1 |} end
    else Some s
  | EReg p m declared data =>
    match map_get p files with
    | Some info => restore_files p m declared data info is_target s
    | None =>
      if is_target then
        if mem p (pending s) || mem p (restored s) then
          Some {| tr := tr s; pre := pre s; pending := pending s; restored := restored s; sched := sched s ++ [(p, m)];
                  ok := ok s && (declared =? 0) |}
        else if mem p missing then Some s
        else Some {| tr := tr s; pre := pre s; pending := pending s; restored := restored s; sched := sched s; ok := false |}
      else Some s
    end
  | ESym p m t =>
    if is_target then
      match create p (RSym t m) (tr s) with
      | Some t' => Some {| tr := t'; pre := pre s; pending := pending s; restored := restored s; sched := sched s; ok := ok s |}
      | None => None end
    else Some s
  end.

Definition do_step (missing : list path) (is_target : bool) (st : step) (s : rs) : option rs :=
  fold_left (fun acc e => match acc with None => None | Some s => do_entry (snd st) missing is_target e s end)
            (b_archive (fst st)) (Some s).

Definition exec (group : list backup) (name : N) : option (tree * bool) :=
  match plan group name with
  | None => None
  | Some (steps, exts, missing) =>
    let s0 := {| tr := []; pre := []; pending := exts; restored := []; sched := []; ok := match missing with [] => true | _ => false end |} in
    let r := fst (fold_left (fun '(acc, first) st => (match acc with None => None | Some s => do_step missing first st s end, false))
                       steps (Some s0, true)) in
    match r with None => None | Some s =>
      let t := fold_left (fun acc '(p, m) => match acc with None => None | Some t =>
                  if mem p (pending s) then Some t else t_setmeta p m t end) (rev (sched s)) (Some (tr s)) in
      match t with None => None | Some t =>
        Some (t, ok s && match pending s with [] => true | _ => false end && match pre s with [] => true | _ => false end) end
    end
  end.

(* ---------------- the checker of C11 and the two refutations ---------------- *)
Definition line_ok (t : tree) (l : mline) : bool :=
  match t_get (l_path l) t with
  | Some (RFile d _) => (N.of_nat (length d) =? l_size l) && list_eqb (H d) (l_hash l)
  | _ => false end.
Definition C11_ok (group : list backup) (name : N) : bool :=
  match exec group name with
  | Some (t, true) => match split_at name (rev group) with
                      | Some (b, _) => forallb (line_ok t) (b_manifest b) | None => true end
  | _ => true end.

Definition m0 := {| m_mode := 420; m_uid := 0; m_gid := 0; m_mtime := 5%Z |}.
(* healthy two-backup group: /1 (dir), /1/2 = "abc" unique in b1, extern in b2 *)
Definition b1 := {| b_name := 1; b_manifest := [ {| l_unique := true; l_hash := [97;98;99]; l_size := 3; l_path := [1;2] |} ];
                    b_archive := [EDir [1] m0; EReg [1;2] m0 3 [97;98;99]] |}.
Definition b2 := {| b_name := 2; b_manifest := [ {| l_unique := false; l_hash := [97;98;99]; l_size := 3; l_path := [1;2] |} ];
                    b_archive := [EDir [1] m0; EReg [1;2] m0 0 []] |}.
Example healthy_restores : exec [b1; b2] 2 = Some ([([1;2], RFile [97;98;99] (Some m0)); ([1], RDir (Some m0))], true).
Proof. vm_compute. reflexivity. Qed.
Example healthy_ok : C11_ok [b1; b2] 2 = true /\ C11_ok [b1; b2] 1 = true. Proof. vm_compute. auto. Qed.

(* F2: own file listed in the manifest, entry absent from the archive -> ok = true, file not created *)
Definition b1_F2 := {| b_name := 1; b_manifest := b_manifest b1; b_archive := [EDir [1] m0] |}.
Example F2_refuted : C11_ok [b1_F2] 1 = false. Proof. vm_compute. reflexivity. Qed.
(* F5: extern line with an altered size -> ok = true, file has the resolving record's size *)
Definition b2_F5 := {| b_name := 2; b_manifest := [ {| l_unique := false; l_hash := [97;98;99]; l_size := 7; l_path := [1;2] |} ];
                       b_archive := b_archive b2 |}.
Example F5_refuted : C11_ok [b1; b2_F5] 2 = false. Proof. vm_compute. reflexivity. Qed.
(* detected corruptions stay detected *)
Definition b1_short := {| b_name := 1; b_manifest := b_manifest b1; b_archive := [EDir [1] m0; EReg [1;2] m0 2 [97;98]] |}.
Example truncated_detected : exec [b1_short] 1 = None. Proof. vm_compute. reflexivity. Qed.
Example missing_group_detected : option_map snd (exec [b2] 2) = Some false. Proof. vm_compute. reflexivity. Qed.
