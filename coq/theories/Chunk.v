From Coq Require Import List Arith NArith ZArith Lia Bool ZifyBool ZifyNat.
Import ListNotations.
Ltac Zify.zify_post_hook ::= Z.div_mod_to_equations.

Section Chunked.
Variable H : list N -> list N.   (* digest as bytes *)

Record st := { blk : option (list N * nat); res : list N }.
Definition init : st := {| blk := None; res := [] |}.

Definition consume_block (s : st) : st :=
  match blk s with
  | Some (b, _) => {| blk := None; res := res s ++ H b |}
  | None => s
  end.

Definition write (bs : nat) (s : st) (buf : list N) : st * nat :=
  match buf with
  | [] => (s, 0)
  | _ =>
    let '(b, avail) := match blk s with Some ba => ba | None => ([], bs) end in
    if length buf <? avail
    then ({| blk := Some (b ++ buf, avail - length buf); res := res s |}, length buf)
    else (consume_block {| blk := Some (b ++ firstn avail buf, 0); res := res s |}, avail)
  end.

Fixpoint write_all (fuel : nat) (bs : nat) (s : st) (buf : list N) : option st :=
  match buf with
  | [] => Some s
  | _ => match fuel with
         | 0 => None
         | S f => let '(s', n) := write bs s buf in
                  if n =? 0 then None else write_all f bs s' (skipn n buf)
         end
  end.

Definition finish (s : st) : list N := H (res (consume_block s)).

Fixpoint feed (bs : nat) (s : st) (ws : list (list N)) : option st :=
  match ws with
  | [] => Some s
  | w :: ws' => match write_all (length w) bs s w with
                | Some s' => feed bs s' ws'
                | None => None
                end
  end.

(* specification *)
Fixpoint chunks_f (fuel bs : nat) (d : list N) : list (list N) :=
  match d with
  | [] => []
  | _ => match fuel with 0 => [] | S f => firstn bs d :: chunks_f f bs (skipn bs d) end
  end.
Definition chunks bs d := chunks_f (length d) bs d.
Definition spec (bs : nat) (d : list N) : list N := H (concat (map H (chunks bs d))).

(* ---- proofs ---- *)
Lemma chunks_fuel : forall bs, bs > 0 -> forall f1 f2 d, length d <= f1 -> length d <= f2 ->
  chunks_f f1 bs d = chunks_f f2 bs d.
Proof.
  intros bs Hbs f1; induction f1 as [|f1 IH]; intros f2 d H1 H2.
  - destruct d; cbn [length] in *; [destruct f2; reflexivity | lia].
  - destruct d as [|x d]; [destruct f2; reflexivity|].
    destruct f2 as [|f2]; [cbn [length] in H2; lia|].
    cbn [chunks_f]. f_equal. cbn [length] in *. apply IH; rewrite skipn_length; cbn [length]; lia.
Qed.

Lemma chunks_step : forall bs d, bs > 0 -> d <> [] ->
  chunks bs d = firstn bs d :: chunks bs (skipn bs d).
Proof.
  intros bs d Hbs Hd. unfold chunks. destruct d as [|x d]; [congruence|].
  cbn [length chunks_f]. f_equal. apply chunks_fuel; auto; rewrite skipn_length; cbn [length]; lia.
Qed.

Lemma chunks_app : forall bs a d, bs > 0 -> length a = bs -> chunks bs (a ++ d) = a :: chunks bs d.
Proof.
  intros bs a d Hbs Ha. rewrite chunks_step; auto.
  - rewrite firstn_app, skipn_app. replace (bs - length a) with 0 by lia.
    rewrite firstn_all2, skipn_all2 by lia. cbn. now rewrite app_nil_r.
  - destruct a; cbn in *; [lia|discriminate].
Qed.

Lemma chunks_small : forall bs b, b <> [] -> length b <= bs -> chunks bs b = [b].
Proof.
  intros bs b Hb Hl. assert (bs > 0) by (destruct b; cbn in *; [congruence|lia]).
  rewrite chunks_step; auto. rewrite firstn_all2, skipn_all2 by lia. reflexivity.
Qed.

Definition pend (s : st) : list N := match blk s with Some (b, _) => b | None => [] end.
Definition wf (bs : nat) (s : st) : Prop :=
  match blk s with Some (b, a) => a = bs - length b /\ 0 < length b < bs | None => True end.
Definition Q (bs : nat) (s : st) (d : list N) : list N :=
  res s ++ concat (map H (chunks bs (pend s ++ d))).

Lemma write_step : forall bs s buf rest s' n, bs > 0 -> wf bs s -> buf <> [] ->
  write bs s buf = (s', n) ->
  0 < n <= length buf /\ wf bs s' /\ Q bs s (buf ++ rest) = Q bs s' (skipn n buf ++ rest).
Proof.
  intros bs s buf rest s' n Hbs Hwf Hbuf Hw. unfold write in Hw.
  destruct buf as [|x buf']; [congruence|]. remember (x :: buf') as buf eqn:Ebuf.
  assert (Hlb : 0 < length buf) by (subst buf; cbn; lia). clear Ebuf Hbuf x buf'.
  unfold wf, Q, pend in *. destruct (blk s) as [[b a]|] eqn:Hb.
  - destruct Hwf as [Ha Hlen]. destruct (Nat.ltb_spec (length buf) a) as [Hlt|Hge].
    + inversion Hw; subst s' n; clear Hw. cbn [blk res]. rewrite skipn_all. cbn [app].
      rewrite app_length, <- app_assoc. repeat split; lia.
    + inversion Hw; subst s' n; clear Hw. unfold consume_block; cbn [blk res].
      repeat split; try lia. cbn [app].
      rewrite <- (firstn_skipn a buf) at 1. rewrite <- !app_assoc, (app_assoc b).
      rewrite chunks_app by (auto; rewrite app_length, firstn_length; lia).
      cbn [map concat]. rewrite <- ?app_assoc. reflexivity.
  - destruct (Nat.ltb_spec (length buf) bs) as [Hlt|Hge].
    + inversion Hw; subst s' n; clear Hw. cbn [blk res]. rewrite skipn_all. cbn [app].
      repeat split; cbn [length app]; lia.
    + inversion Hw; subst s' n; clear Hw. unfold consume_block; cbn [blk res].
      repeat split; try lia. cbn [app].
      rewrite <- (firstn_skipn bs buf) at 1. rewrite <- app_assoc.
      rewrite chunks_app by (auto; rewrite firstn_length; lia).
      cbn [map concat]. rewrite <- ?app_assoc. reflexivity.
Qed.

Lemma write_all_Q : forall bs, bs > 0 -> forall fuel s buf rest, wf bs s -> length buf <= fuel ->
  exists s', write_all fuel bs s buf = Some s' /\ wf bs s' /\ Q bs s (buf ++ rest) = Q bs s' rest.
Proof.
  intros bs Hbs fuel; induction fuel as [|f IH]; intros s buf rest Hwf Hl.
  - destruct buf; cbn in Hl; [|lia]. exists s; auto.
  - destruct buf as [|x buf']; [exists s; auto|]. cbn [write_all]. remember (x :: buf') as buf eqn:Ebuf.
    destruct (write bs s buf) as [s1 n] eqn:Hw.
    destruct (write_step bs s buf rest s1 n Hbs Hwf) as (Hn & Hwf1 & HQ); auto; [subst buf; discriminate|].
    replace (n =? 0) with false by (symmetry; apply Nat.eqb_neq; lia).
    destruct (IH s1 (skipn n buf) rest Hwf1) as (s' & Hs' & Hwf' & HQ').
    { rewrite skipn_length. lia. }
    exists s'. repeat split; auto. congruence.
Qed.

Lemma feed_Q : forall bs, bs > 0 -> forall ws s rest, wf bs s ->
  exists s', feed bs s ws = Some s' /\ wf bs s' /\ Q bs s (concat ws ++ rest) = Q bs s' rest.
Proof.
  intros bs Hbs ws; induction ws as [|w ws IH]; intros s rest Hwf.
  - exists s; auto.
  - cbn [feed concat]. destruct (write_all_Q bs Hbs (length w) s w (concat ws ++ rest) Hwf) as (s1 & H1 & Hwf1 & HQ1); [lia|].
    rewrite H1. destruct (IH s1 rest Hwf1) as (s' & Hs' & Hwf' & HQ').
    exists s'. repeat split; auto. rewrite <- app_assoc. congruence.
Qed.

Lemma finish_Q : forall bs s, wf bs s -> finish s = H (Q bs s []).
Proof.
  intros bs s Hwf. unfold finish, Q, consume_block, pend, wf in *.
  destruct (blk s) as [[b a]|]; cbn [res].
  - rewrite app_nil_r. rewrite chunks_small; [|destruct b; cbn in *; [lia|discriminate]|lia].
    cbn. now rewrite app_nil_r.
  - cbn. now rewrite app_nil_r.
Qed.

(* C18, Dropbox half: for every block size >= 1, every byte string and every fragmentation *)
Theorem chunked_sha256_correct : forall bs ws, bs > 0 ->
  exists s, feed bs init ws = Some s /\ finish s = spec bs (concat ws).
Proof.
  intros bs ws Hbs. destruct (feed_Q bs Hbs ws init [] I) as (s & Hs & Hwf & HQ).
  exists s; split; auto. rewrite (finish_Q bs s Hwf), <- HQ. unfold Q, spec, init, pend; cbn.
  now rewrite app_nil_r.
Qed.
End Chunked.
Print Assumptions chunked_sha256_correct.
