(* C10 — plain tar+zstd with a truthful one-line-per-file manifest (manifest codec part; the statements about the
   run – entries and lines aligned, unique prefix hash, extern entries empty – are in Props_C15 (add_file) and in
   the run model of Props_C02/C09). *)
From Coq Require Import List Arith NArith ZArith Lia Bool.
Import ListNotations.
Require Import Codec Codec2.
Require Import FileReader AddFileDyn W_C15 FileReaderPrefix AddFileStable.
Local Open Scope N_scope.

(* one line per item, "status hash device:inode:mtime_ns size path\n": every well-formed item (byte-valued hash,
   dev/ino/size < 2^64, -2^127 <= mtime < 2^127, path free of CR and LF - spaces allowed) reads back as itself *)
Theorem C10_decode_encode : forall it, wf it -> decode (encode it) = Some it.
Proof. exact decode_encode. Qed.
Check C10_decode_encode : forall it, wf it -> decode (encode it) = Some it.

(* whole manifests through the BufRead::lines model *)
Theorem C10_decode_encode_lines : forall its, Forall wf its -> decode_lines (encode_lines its) = Some its.
Proof. exact decode_encode_lines. Qed.
Check C10_decode_encode_lines : forall its, Forall wf its -> decode_lines (encode_lines its) = Some its.

(* the encoding is escaping-free and still unambiguous *)
Theorem C10_encode_injective : forall a b, wf a -> wf b -> encode a = encode b -> a = b.
Proof. exact encode_injective. Qed.
Check C10_encode_injective : forall a b, wf a -> wf b -> encode a = encode b -> a = b.

(* why validate_path bans CR: a path ending in CR does not survive lines() *)
Example C10_cr_path_lost :
  let it := {| i_unique := false; i_hash := [171]; i_dev := 1; i_ino := 2; i_mtime := (-5)%Z; i_size := 0; i_path := [47; 97; 13] |} in
  option_map (map i_path) (decode_lines (encode_lines [it])) = Some [[47; 97]].
Proof. vm_compute. reflexivity. Qed.

(* non-vacuity: a path with spaces and a negative mtime *)
Example C10_example :
  let it := {| i_unique := true; i_hash := [171; 205]; i_dev := 5; i_ino := 6; i_mtime := (-7)%Z; i_size := 3; i_path := [47; 97; 32; 98] |} in
  wf it /\ decode_lines (encode_lines [it; it]) = Some [it; it].
Proof.
  split; [|vm_compute; reflexivity].
  constructor; cbn; try reflexivity; try lia; try (split; reflexivity); repeat constructor.
Qed.

(* a file that does not change while it is read (both read passes deliver the same content c before their first end-of-file, with any
   short reads, and the declared size is its length) gets a truthful record: size = |c|, hash = H c, and a unique entry is exactly c *)
Theorem C10_stable_file_truthful : forall (hash : Type) (Hh : list N -> hash) (known : hash -> bool) (EMPTY : hash) sizes1 sizes2 sc1 sc2 c,
  before_eof sc1 = c -> before_eof sc2 = c ->
  match add_file (list sitem) srd (fun _ => sc2) (bz_of sizes1) (bz_of sizes2) hash Hh known EMPTY sc1 (length c) None with
  | Unique _ h size entry => c <> [] /\ h = Hh c /\ size = length c /\ entry = c
  | Extern _ h size => (c = [] /\ h = EMPTY /\ size = 0%nat) \/ (c <> [] /\ h = Hh c /\ size = length c /\ known h = true)
  | Abort _ => True
  end.
Proof. exact stable_file_truthful. Qed.
Check C10_stable_file_truthful : forall (hash : Type) (Hh : list N -> hash) (known : hash -> bool) (EMPTY : hash) sizes1 sizes2 sc1 sc2 c,
  before_eof sc1 = c -> before_eof sc2 = c ->
  match add_file (list sitem) srd (fun _ => sc2) (bz_of sizes1) (bz_of sizes2) hash Hh known EMPTY sc1 (length c) None with
  | Unique _ h size entry => c <> [] /\ h = Hh c /\ size = length c /\ entry = c
  | Extern _ h size => (c = [] /\ h = EMPTY /\ size = 0%nat) \/ (c <> [] /\ h = Hh c /\ size = length c /\ known h = true)
  | Abort _ => True
  end.

Print Assumptions C10_decode_encode.
Print Assumptions C10_decode_encode_lines.
Print Assumptions C10_encode_injective.
Print Assumptions C10_stable_file_truthful.
