#!/usr/bin/env python3
"""Regenerates MANIFEST.json from the table below (kept in one place so that it is always valid)."""
import json
import os

ROOT = os.path.dirname(os.path.dirname(os.path.abspath(__file__)))

CHECKS = {
    "C04": {
        "text": "Proof (Coq, closed under the global context): the gpg-stdout reader thread (hash each block, forward it, finish with the "
                "checksum) composed with the stream splitter, for an ARBITRARY sequence of blocks and an arbitrary request-size limit m >= 1: "
                "the request bodies are the stream cut at m, in order, at contiguous offsets from 0, their concatenation is the stream, and "
                "the finalisation carries the stream's length and the provider's block-wise checksum; for the unlimited providers: one body "
                "holding the whole stream, then its length and MD5. Tied to the code by running the real `vsb upload` against the provider "
                "emulator with a recording gpg stand-in: stored object == encryptor output byte for byte (real gpg, and a stand-in emitting "
                "exactly N bytes for N around multiples of the request limit - lowered to 64 KiB by a cfg-guarded hook, real 150 MiB in the "
                "thorough tier); Dropbox body sizes == the proved `chunks`; decryption with the configured passphrase (spaces, quotes, "
                "unicode, metacharacters) gives exactly <name>/, data.tar.zst, metadata.zst with the local bytes; a wrong passphrase fails; "
                "no 24-byte window of the local files appears in the object; the passphrase is absent from gpg's argv and environment and "
                "arrives through a pipe held by one descriptor; an encryptor killed by a signal never yields a final-named object.",
        "note": "Partial: gpg itself (decrypt o encrypt = id, confidentiality) is trusted and only observed; the emulator is this check's "
                "reading of the provider APIs; the per-function ties of the splitter and the hashers are C17's and C18's checks.",
        "technique": "Coq proof (reader o splitter composition for arbitrary blocks and limits) + end-to-end runs of the real binary against "
                     "a provider emulator with a recording / size-controlled encryptor stand-in",
        "design": "7/C04",
    },
    "C05": {
        "text": "Proof (Coq, closed under the global context): for each provider's upload_file, modelled as a function of the chunk-stream "
                "events and an ARBITRARY reply oracle (any request may fail) against a server whose checksum is a function of what it "
                "stored: if the final name's content changed, the call returned success, the name was free, it now holds exactly the "
                "payload, and the finalisation carried the payload's length and the server-side checksum (Dropbox, Yandex Disk, Google "
                "Drive); the archiver / gpg / reader / splitter / uploader pipeline, as a transition system, has no stuck non-terminal "
                "state and every terminal state has gpg reaped and the reader ended (5449 states, closure proved by reflection). Tied to "
                "the code by running the real `vsb upload` (hook-enabled build, real gpg and threads) against an emulator of the three "
                "provider APIs: one reference run, then one fault at a chosen request x {4xx/5xx JSON, 5xx text, malformed JSON, missing "
                "Content-Type, reset before/inside the body, server-side corruption, wrong reported checksum}, and gpg dying / failing / "
                "absent; after each run the cloud namespace (no final-named object unless it decrypts to the local backup; pre-existing "
                "object untouched; no direct write under a final name), the error report, attempts for the remaining backups, run time "
                "and the process table are examined; for every provider the outcome of the disturbed upload (temporary left, number of "
                "final-named objects, success) is compared with the extracted upload machine of that provider.",
        "note": "Partial: the emulator is this check's reading of the provider APIs; thread interleavings are those that arise in the "
                "runs (the LTS theorem covers all interleavings of the model, not of the code); the machines are compared with the code "
                "on Ok / Fail replies everywhere and on Async / Pending replies for the Yandex move (202 + operation that succeeds, "
                "stays in progress, fails); asynchronous deletes and upload operations are in the model but not driven.",
        "technique": "Coq proof (upload machines under an arbitrary reply oracle; pipeline LTS by reflection) + fault sweep of the real "
                     "binary against a provider emulator",
        "design": "7/C05",
    },
    "C16": {
        "text": "Proof (Coq, closed under the global context): two runs scheduled arbitrarily under non-blocking exclusive-lock "
                "semantics never hold the lock together, a refused run has issued no storage operation, and the issue order of "
                "storage operations is one run's followed by the other's. Tied to the code by traces of the real `vsb backup` "
                "(exclusive non-blocking flock on the backup root is the first storage access and is held past the last removal) "
                "and by starting a second real run while the first is paused right after the lock, while items are read, during "
                "publication and during old-group removal - also through a symbolic link to the same root in another configuration file: immediate lock error, no mutating storage call, listing unchanged; and by two real "
                "`vsb upload` runs with one configuration file against the provider emulator, the second started while the first waits for "
                "a delayed reply (during listing, during transfer): immediate lock error and not a single request from the refused run.",
        "note": "Partial: the exclusion itself is the kernel's flock(2); the scheduler model is an abstraction whose tie is the "
                "paused-process experiment. `vsb upload` locks the configuration file in the same way (uploading/mod.rs:22).",
        "technique": "Coq proof (scheduler invariant) + paused-process experiments and lock-bracket traces on the real binary",
        "design": "7/C16",
    },
    "C08": {
        "text": "Proof (Coq, closed under the global context) on the walker model with per-node faults and an abstract filter: a run "
                "that was not aborted and reported no error has archived every node that is there, unfaulted, reached through "
                "unfaulted directories and allowed at every prefix; it met no fault of the error class (permission / I/O errors "
                "anywhere; vanished, type-changed or special paths at the top level) and no unrepresentable name; a fault-free "
                "tree walks without error (no false alarm); an unprepared item or failing hook fails the run. Tied to the code by "
                "real runs over generated trees (files, directories, symlinks, fifos, non-UTF-8 / CR / LF names, missing items) "
                "with stat / open / readdir / read / readlink failures injected by strace at calls located in a reference trace, "
                "singly and in pairs: exit status, error and warning counts and the published path set vs the extracted model; the "
                "property and 'the source is never written' are evaluated on the real run. Half of the runs start on a storage that already holds an older group with a limit of one group (rotation due in the same run); items carry hooks that fail by exit status or by dying from a signal.",
        "note": "Partial: strace keeps one injection per system call name, so pairs use two different calls; abort-publishes-nothing "
                "is observed on the real run (and is C03's subject on the op model). We run as root: EACCES is injected.",
        "technique": "Coq proof on a faulted tree walk + system-call fault injection against the real binary",
        "design": "7/C08",
    },
    "C19": {
        "text": "Proof (Coq, closed under the global context): the trace of Backuper::run is the concatenation over a prefix of the "
                "items, in configuration order, of before? work after?; the prefix is all items unless one aborted and then ends with "
                "that item including its after hook; each started item has exactly one work segment between its hooks; a hook that "
                "cannot be started or exits non-zero, or an unpreparable item, makes the run fail without skipping the item. Tied to "
                "the code by tracing real runs over generated item lists (hooks absent / succeeding / failing / unstartable, items "
                "missing / overlapping / aborting with an injected read error): the observed order of execve of the hook commands "
                "and of opens below each item root, the hook log and the exit status vs the extracted model. Some items come into being only in their own (succeeding) before hook; failing hooks exit non-zero or die from SIGKILL / SIGTERM / SIGSEGV; half of the runs start from a storage whose old group is due for rotation, and the theorem C19_failing_hook_fails_backup composes the failure with the retention phase's status.",
        "note": "'reads of an item's paths' are observed as openat / readlink at or below the item root by the main thread; bash is "
                "trusted to run the configured command.",
        "technique": "Coq proof (trace shape by induction over items) + system-call ordering traces of the real binary",
        "design": "7/C19",
    },
    "C03": {
        "text": "Proof (Coq, closed under the global context) on the volatile namespace of one group (EEXIST / ENOENT / ENOTEMPTY "
                "semantics): after ANY list of calls confined to the temporary directory every final-named entry is an old one, "
                "unchanged; a failure followed by the clean-up leaves the group exactly as it was; success adds exactly the "
                "complete backup; a same-second collision fails the rename and restores the group; the next run recovers; on the "
                "persistence model a published object never changes. Tied to the code by tracing a reference run per scenario "
                "(first, append, rotation with removal, abandoned temporary, collision) and re-running it with the process killed "
                "at, or ENOSPC / EIO / EACCES injected into, its storage calls: the real storage is examined (final-named backups "
                "complete and decodable, old backups byte-identical, only dot names for unfinished work, failing run removes its "
                "temporary and exits non-zero), compared with the namespace model on the same prefix, and a recovery run is made.",
        "note": "Partial: the atomicity of rename(2) / mkdir(2) is the kernel's; kills are delivered on entering a call (strace "
                "inject), so 'just after call k' is covered as 'just before call k+1'; quick tier samples the calls (all mkdir / "
                "fsync / rename calls plus 7 others per scenario), thorough takes all of them.",
        "technique": "Coq proof on a namespace machine + system-call fault / kill injection sweep against the real binary",
        "design": "7/C03",
    },
    "C12": {
        "text": "Proof (Coq, closed under the global context) on the persistence model the property prescribes (file data persists by "
                "fsync(file), directory entries by fsync(directory), a crash keeps any sub-selection of pending entry operations): a "
                "trace accepted by the checker durable_ok is crash-safe at every prefix, and at old-group removal / success report "
                "every name is persisted; vsb's sequence is accepted for all write lists, also when abandoned temporaries are removed "
                "first. Tied to the code by tracing the real `vsb backup` (strace -f -y) in four scenarios, projecting its storage "
                "calls to the abstract operations, checking the shape against the model's vsb_run and running the verified checker "
                "on the observed trace (a rejected operation is the crash point of the replay). Scenarios include runs with a non-fatal error (missing item, failing hook) that publish with a non-zero exit status.",
        "note": "Partial: that the kernel honours fsync is assumed (it is the property's own model); creation of a new group "
                "directory is assumed persisted, as the property states; release build traced in the thorough tier.",
        "technique": "Coq proof (checker soundness + acceptance of vsb's op sequence) + projected system-call traces of the real binary",
        "design": "7/C12",
    },
    "C01": {
        "text": "Proof (Coq, closed under the global context) of the chain at Layer A (archive entries + manifest lines): for every "
                "storage produced by any sequence of runs into the newest group, runs into a new group and deletions of the k oldest "
                "groups - the theorem does not depend on the rotation policy - every backup still present restores with ok = true to "
                "a tree carrying exactly the snapshot its run saw (directories, files with bytes, symlinks, metadata) and nothing "
                "else; the walk-order premise is discharged from the walker for every configuration of non-overlapping items; header "
                "round trips for mtime (whole i64 range), ids, permission bits. Tied to the code by histories of real `vsb backup` "
                "runs under a fake clock with every retained backup restored by the real `vsb restore` and compared field by field "
                "with what its run read, plus the run / rotation / restore models compared with the decoded storage and the real "
                "restore along the way. The histories include identity corner cases (a different file of the same size and nanosecond mtime renamed over a path; an in-place rewrite whose mtime changes only below the second) and a tree of hundreds of 1..4096-byte files plus a large one, so that file data straddles the decompressor's 128 KiB blocks.",
        "note": "Assumptions of the property carried by the theorem: a fingerprint hit means unchanged content, distinct backup names "
                "per group (clock not going backwards), fault-free unchanged trees. Hash = content in the model (SHA-512 assumed "
                "collision-free). Partial: tar/zstd byte-level fidelity and the effects of chown/chmod/utimensat are observed, not "
                "proved. F1 (pre-1970 mtimes) found and repaired.",
        "technique": "Coq proof (history invariant HOK + plan/exec success) + differential histories against the real binary",
        "design": "7/C01",
    },
    "C02": {
        "text": "Proof (Coq, closed under the global context): one more run keeps the group verifiable - every non-empty extern line "
                "of the appended backup resolves to a unique line earlier in the same group - for every group, file set and hash "
                "function, unconditionally since the repair of F6; by induction over arbitrary histories of publishing and failed "
                "runs; with unreadable manifests a run adds no damage of its own. Tied to the code by real run histories (rotation "
                "with unchanged files, content moving / returning, same-identity size changes, a garbage manifest mid-group): the "
                "decoded manifest and archive of every new backup are compared with the extracted model, and the property is "
                "evaluated on every backup present after every run. Also: a targeted history in which the only unique record of some content becomes unreadable while a later backup holds an extern record for it and the content then appears under a new path; and scheduled concurrent-writer runs (content replaced between the two read passes, a copy of the old content in a later item); and a second run inside the same second as the backup just published.",
        "note": "Hash = content in the model. Directory order is taken from os.listdir on the unchanged directory. F6 (fingerprint "
                "shortcut ignoring a size change) found and repaired.",
        "technique": "Coq proof (fold-with-accumulator invariant over manifests) + differential histories against the real binary",
        "design": "7/C02",
    },
    "C07": {
        "text": "Proof (Coq, closed under the global context): over arbitrary histories with changing limits no group exceeds the "
                "largest per-group limit in force; after a published run with a clean listing at most max_groups groups remain, the "
                "newest is kept, the removed ones are the oldest whole groups; anything unlistable (group or root level) blocks every "
                "deletion. Tied to the code by real run histories under a fake clock (same day, +1 h, next day, gaps), limits 1..4 x "
                "1..4 changed between runs, storages seeded with debris: group and backup names after every run are compared with "
                "the extracted model (publish + gc) and the property is evaluated on the real listing; foreign root entries - also directories whose names merely resemble a group name (<date>.old, a date in non-ASCII digits) - must block every deletion and be neither deleted nor written into (theorems C07_group_name_exact, C07_extended_group_name_is_foreign on the name-classification model).",
        "note": "Backups are counted as the listing recognises them (final-named directories with both files); chrono name formatting "
                "under TZ=UTC is trusted. Open finding F3 concerns this code path (see C13).",
        "technique": "Coq proof (invariant over run/fail/collect events) + differential histories against the real binary",
        "design": "7/C07",
    },
    "C09": {
        "text": "Proof (Coq, closed under the global context): a run keeps the group's unique hashes duplicate-free and never stores "
                "an empty file's data; add_file does not touch the reader for an empty file or a fingerprint hit. Tied to the code "
                "by duplication-heavy real run histories: decoded unique/extern flags and entry sizes vs the extracted model, and "
                "per-path byte counts of read(2) on source files from an strace of every run vs 0 / 1x / 2x the file size as the "
                "dedup decision predicts. Also targeted histories in which content leaves the tree for one or two runs and returns while its group still stores it. Every history carries never-edited files with pre-1970 modification times that have a sub-second part.",
        "note": "Source files static during runs; strace completeness assumed (paths whose open is missing from the trace are "
                "skipped and counted).",
        "technique": "Coq proof + differential histories with system-call read counting",
        "design": "7/C09",
    },
    "C13": {
        "text": "Proof (Coq, closed under the global context): the verifier (listing + sequential inspection, transcribed) accepts "
                "exactly the storages satisfying a declarative Healthy predicate written without reference to its traversal; a "
                "publishing run from healthy groups yields healthy groups (given what C02 provides and outside the open finding "
                "F3, which is refuted by a witness on the faithful model); failing and killed runs keep all groups healthy; the "
                "age alarm is raised iff no backup or age >= threshold, empty trailing groups skipped; duration = number x unit. "
                "Tied to the code by writing healthy histories and every manifest-level corruption with the independent encoder, "
                "verifying them through the real public Storage API and comparing with the extracted model; the real "
                "check_backups is run under a fake clock at threshold -1 s / 0 / +1 s for m/h/d; histories of real completing, failing "
                "(injected storage faults) and killed runs are verified after every run; and the real `vsb upload` is run against the "
                "provider emulator with the threshold in the configuration and a faked clock: the alarm lines for the local storage and "
                "for the cloud must agree with the alarm model. The classification of names behind the classified listing (what is a group, a backup, a temporary, a hidden or an unexpected entry) is a Gallina model with its own theorems (exact shapes in ASCII digits; no extension of a name is a name; a name with a non-ASCII byte is foreign), compared with the real listing on names around the two shapes - this tie found F13 (non-ASCII digits accepted), repaired in /repo.",
        "note": "Names are classified (day numbers, hash ids) in the verifier model, by NameClass.v before that; the regex crate's matching of the two patterns and chrono name parsing are trusted. "
                "Open known finding F3 (empty group left by a failed run, reused on a later date) is reported as KNOWN-FINDING when "
                "a history of that class is exercised (likewise F10: a tree without regular files).",
        "technique": "Coq proof (executable verifier <-> declarative predicate; run invariants) + differential correspondence on corrupted storages",
        "design": "7/C13",
    },
    "C11": {
        "text": "Proof (Coq, closed under the global context) on an executable Layer-A model of RestorePlan + Restorer: for "
                "ARBITRARY storages (any manifests, any archives), ok = true at the end implies every manifest line of the target "
                "has a file with exactly the recorded size and hash; accepted manifest / archive paths land below the restore "
                "directory with good components only, relative / '..' / absolute-in-archive paths are rejected. Tied to the code "
                "by writing generated groups and every single corruption of the property's list with an independent encoder, "
                "restoring them with the real `vsb restore`, and comparing exit status and the complete restored tree (bytes, "
                "modes, owners, mtimes) with the extracted model; path functions compared exhaustively over short strings; the "
                "property itself is re-evaluated on every real result (incl. truncated / deleted files, storage untouched, "
                "nothing outside the restore directory, traversal members end to end). The creation calls of a third of the real restores are traced: every directory is made with mode 0700, every file with O_CREAT|O_EXCL and mode 0600; generated backups contain deep duplicates (parents pre-created before their own entries); manifests spanning several compression blocks are cut off in the middle or followed by garbage.",
        "note": "Hash = content in the model (SHA-512 assumed collision-free on generated contents); tar/zstd fidelity and "
                "chown/chmod/utimensat effects are observed, not proved; symlink-in-the-middle traversal is out of scope as the "
                "property says. Four defects found here were repaired in /repo (F2, F5, F7, F9).",
        "technique": "Coq proof over arbitrary storages (plan/exec invariants) + differential correspondence on corrupted real storages",
        "design": "7/C11",
    },
    "C20": {
        "text": "Proof (Coq, closed under the global context) on an acceptance model of Config::load over a typed-leaf YAML tree: "
                "whatever document is accepted, names are distinct and non-empty, storage/upload/metrics paths normalised, limits "
                ">= 1, item lists and paths non-empty, passphrase non-empty, provider one of three, the threshold the value of a "
                "well-formed duration; unknown keys rejected (top level and provider block as named theorems); normalisation "
                "idempotent; the duration parser never panics. Tied to the code by running the real Config::load on every "
                "single-fault mutation of valid documents and comparing verdict and accepted configuration with the extracted "
                "model; the property's own list of malformations is evaluated on the implementation's verdict by an independent "
                "classifier. The real binary: a valid sandboxed document with one fault at a time, `vsb backup|upload|restore` under strace - non-zero exit, nothing executed, no inet connect, no path at or below the storage / items / restore target touched, sandbox unchanged.",
        "note": "Partial: YAML parsing and scalar resolution (serde_yaml) and validator's derive semantics are trusted; 'before any "
                "storage or network access and without side effects' is observed, not proved: the real `vsb backup|upload|restore` under strace with one fault of the property's list at a time (vlib/cfgrun.py). "
                "Three defects found by this check were repaired in /repo (F4a, F4b, F8; see KNOWN_FINDINGS.json).",
        "technique": "Coq proof about an acceptance model + exhaustive single-fault mutation correspondence with the real loader",
        "design": "7/C20",
    },
    "C06": {
        "text": "Proof (Coq, closed under the global context) on a model of the sync planner: no upload of a backup the cloud "
                "holds; a deletion implies an error-free run, the wiped-local safeguard, a cloud group outside the window; the "
                "window is exactly the groups with fewer than max non-empty groups newer than them; after an error-free run the "
                "cloud holds every local backup of every window group; a second run plans nothing. Tied to the code by running "
                "the real sync_backups (real Storage type, real local directories, mock cloud provider) against the extracted "
                "model exhaustively over a 3-group universe with faults, plus second runs; the property itself is re-evaluated "
                "on the implementation's action list by an independent checker. End to end: the real `vsb upload` with real gpg "
                "against the provider emulator (all three providers) on generated local storages, cloud states, limits, create / "
                "upload faults and stray entries on either side: the actions it logs, its ok state and the cloud namespace afterwards "
                "must equal the planner model's, and the property is evaluated on what the run did. A cloud group holding the temporary object of an interrupted upload of a backup it lacks: that backup must still be uploaded.",
        "note": "Names are numbers in the model (order-isomorphic to date strings). Listing-level inputs (temporaries, unexpected "
                "entries) enter through the ok flag, which the end-to-end runs read off the tool's own error lines. gpg is a "
                "pass-through stub in the planner-level part.",
        "technique": "Coq proofs over sorted association lists + exhaustive differential correspondence against the real planner + "
                     "end-to-end runs of the real binary against a provider emulator",
        "design": "7/C06",
    },
    "C10": {
        "text": "Proof (Coq, closed under the global context): the one-line-per-file manifest codec round-trips for every "
                "well-formed item (paths with spaces, negative mtimes, u64/i128 ranges) and whole manifests through the "
                "BufRead::lines model; the encoding is injective. Tied to the code by comparing the real MetadataWriter / "
                "MetadataReader (through zstd) with the extracted model on generated items and mutated lines, and by reading the "
                "writer's output with an independent parser of the documented format. Scheduled concurrent-writer runs also replace the file by rename before it is opened: a file that did not change while it was read must have a truthful line (size, SHA-512, device:inode:mtime of the source file); stable_file_truthful is the model-level statement.",
        "note": "Partial: tar/zstd decodability with standard tools is observed (independent decoder on real runs: entry/line "
                "alignment, unique-prefix hashes, extern entries empty, truthful size/hash/fingerprint, 0600/0700 modes), not "
                "proved; UTF-8 validity of lines is outside the byte-level model.",
        "technique": "Coq round-trip proofs for the codec + differential correspondence with the real reader/writer",
        "design": "7/C10",
    },
    "C14": {
        "text": "Proof (Coq, closed under the global context): the verdict of a rule list is that of the first rule whose glob "
                "matches, allow if none; on every fault-free tree and every filter a path is archived iff it exists and every "
                "non-empty prefix of its item-relative path is allowed (pruning; the root is never filtered); `*` matches exactly "
                "slash-free strings, `?` one non-slash byte, a leading `**/` nothing or everything up to a slash, `{..}` "
                "alternates; blank and # lines are ignored; rule lines read back. The glob parser, token semantics, vsb's "
                "unescaping and line parsing are a Gallina model compared with the real PathFilter on an exhaustive small "
                "universe, grammar-generated specs with derived paths, and a malformed stream. Several items: the walk of each item is that of its own tree under its own rule list whatever became of earlier items (theorem), tied by real runs over 2..4 items with different rule lists and missing / overlapping earlier items.",
        "note": "Partial: globset's regex engine is trusted to implement each token's language (parser and translation are "
                "modelled); the walker's use of the filter (item-relative path, no descent) is proved on the walker model and "
                "tied to the real binary by walker_part / multi_item_part of this check and by the storage-level checks (C08/C01 histories with filters).",
        "technique": "Coq proofs on a glob/filter/walker model + exhaustive and grammar-based differential correspondence",
        "design": "7/C14",
    },
    "C17": {
        "text": "Proof (Coq, closed under the global context) on a model of splitter(): for every maximum m >= 1, every "
                "fragmentation of the stream into payload blocks and a receiver that stays, the bodies the provider sees are "
                "exactly (offset, bytes) = from_off 0 (chunks m stream) followed by the finalisation with total and checksum; "
                "an upstream error replaces the finalisation (same bodies, no finalisation anywhere); a sender hang-up fails "
                "without either; in every run at most one terminal event and nothing after it; a send to a receiver that went "
                "away fails the run. Tied to the code by running the real split() (threads, rendezvous channels, scripted "
                "producer/consumer, jitter) and the extracted model on an exhaustive small universe.",
        "note": "Trusted: Coq kernel, extraction + driver, harness. Modelled, not verified: std::sync::mpsc semantics (a send "
                "succeeds iff the receiver exists); real thread interleavings are only sampled by jitter. The data half for "
                "max = unlimited is covered by the correspondence run and by terminal_once_and_last, not yet by a bodies theorem.",
        "technique": "Coq proof (invariant over the message list, chunks as specification) + exhaustive differential correspondence",
        "design": "7/C17",
    },
    "C15": {
        "text": "Proof (Coq, closed under the global context): FileReader over an arbitrary underlying reader (any short reads, "
                "early EOF, data after EOF) always yields exactly the declared size, real bytes then zeros, with count and digest "
                "of the real bytes; add_file over a file changing at any read yields a record whose size and hash describe the "
                "first `size` bytes of the entry (unique) or bytes already stored in the group (extern), or aborts. Tied to the "
                "code by running the real FileReader over scripted readers against the extracted model (exhaustive small universe), and by "
                "running the real `vsb backup` with a deterministic concurrent writer (LD_PRELOAD interposer acting right before a "
                "chosen lstat / open / fstat / k-th read of the victim: truncate to 0 / half / around the offset, append, unlink, replace "
                "by directory / symlink, rewrite, shrink-then-grow; nested and top-level; without / with matching / with touched previous "
                "backup): the published backup is decoded independently and restored with `vsb restore`; size, hash, prefix and "
                "neighbours are examined.",
        "note": "Partial: the model of add_file is compared with the code at the FileReader level; the whole-run level is covered by the "
                "property evaluation on scheduled runs, not by a step-by-step model comparison. The interposer covers libc-level calls of "
                "the single walking thread. Trusted: Coq kernel, extraction + driver, harness, sha2/hashlib.",
        "technique": "Coq proof (invariant over read calls with an oracle reader) + exhaustive differential correspondence + scheduled "
                     "concurrent-writer runs of the real binary",
        "design": "7/C15",
    },
    "C18": {
        "text": "Proof (Coq, closed under the global context): for every digest function, block size >= 1 and every "
                "sequence of write calls the chunked hasher's result is H(concat(map H (consecutive blocks))), the blocks "
                "being exactly the consecutive bs-byte pieces (no empty trailing block); the MD5 wrapper digests the "
                "concatenation; rendering is lower-case hex. The model is tied to the code by running the real hashers and "
                "the extracted model on every composition of small inputs (plus a vm_compute sample) and the providers' own "
                "hasher() at the 4 MiB boundaries against hashlib; the call site in the encryptor is tied by real `vsb upload` runs of streams longer than one 4 MiB block through the real gpg to an honest emulated provider (vsb's checksum must agree with the provider's definition over the bytes sent).",
        "note": "Trusted: Coq kernel, extraction (ExtrOcamlBasic only) + 60-line OCaml driver, harness; sha2/md-5 crates and "
                "hashlib implement SHA-256/MD5 (digest functions are parameters of the theorems); the 4 MiB constant and the "
                "provider->hasher choice are pinned by execution, not by proof.",
        "technique": "Coq proof by invariant over write calls + differential correspondence (extracted model vs real hashers)",
        "design": "7/C18",
    },
}

PENDING = {
}

ALL = ["C%02d" % i for i in range(1, 21)]


def main():
    checks = []
    for pid in ALL:
        if pid not in CHECKS:
            continue
        c = CHECKS[pid]
        checks.append({
            "property_id": pid,
            "quick_cmd": "./check %s quick" % pid,
            "thorough_cmd": "./check %s thorough" % pid,
            "evidence_file": "/verif/evidence/%s.json" % pid,
            "replay_cmd_template": "./check %s --replay {path}" % pid,
            "engine": "coq-correspondence",
            "level_claimed": {"category": "proof", "text": c["text"], "design_ref": c["design"]},
            "level_note": c["note"],
            "technique": c["technique"],
        })
    na = [{"property_id": pid, "reason": PENDING.get(pid, "check not built yet in this round (model and proofs exist in coq/theories; "
                                                           "no correspondence check registered, so nothing is claimed)")}
          for pid in ALL if pid not in CHECKS]
    m = {
        "version": 1,
        "setup_cmd": "./setup",
        "hooks": {
            "guard": "vsb_verif",
            "enable": "RUSTFLAGS=\"--cfg vsb_verif\" (set by vlib/build.py for the harness and for the vsb binary the checks build)",
            "baseline_off_cmd": "cd /repo && cargo test --workspace --no-fail-fast --offline",
            "source_commits": ["4a2459f", "00656bc"],
            "fix_commits": ["8b196ab", "64fc1ae", "9b93522", "a699f7c", "3bc0c53", "02f1099", "3543234", "d28d72c", "f378725", "113df45", "0e664f5"],
            "add_only": True,
        },
        "engines": [{
            "name": "coq-correspondence",
            "path": "/verif/check",
            "serves_properties": [c["property_id"] for c in checks],
            "kind_free_text": "Coq 8.16.1 development (coq/theories, property theorems in Props_Cxx.v) + correspondence checking: "
                              "extracted OCaml model / vm_compute vs the implementation driven through harness/ (vsbh) and the real binary",
        }],
        "checks": checks,
        "not_applicable": na,
        "notes": "Every check: proof half (full .vo build, pinned statements, Print Assumptions allow-list, hygiene scan) and tie half "
                 "(model vs implementation on generated cases). See DESIGN.md.",
    }
    with open(os.path.join(ROOT, "MANIFEST.json"), "w") as f:
        json.dump(m, f, indent=1)
        f.write("\n")


if __name__ == "__main__":
    main()
