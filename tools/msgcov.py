#!/usr/bin/env python3
"""Message coverage: which error! / warn! call sites of /repo/src were ever triggered by the checks' runs of the real binary.
usage: VERIF_MSGCOV=/verif/build/msgcov.txt ./check Cxx quick ...; tools/msgcov.py /verif/build/msgcov.txt
A cheap proxy for branch coverage of the failure paths; it guides the generators, it proves nothing."""
import os
import re
import sys

SRC = "/repo/src"
seen = set()
for f in sys.argv[1:]:
    for l in open(f, errors="replace"):
        seen.add(re.sub(r"^[EW]: (\[[^\]]*\] )?", "", l.rstrip("\n")))
sites = []
for dp, dn, fn in os.walk(SRC):
    for n in fn:
        if not n.endswith(".rs") or "/tests" in dp:
            continue
        text = open(os.path.join(dp, n)).read()
        for m in re.finditer(r"\b(error|warn)!\(\s*(concat!\()?((?:\s*\"(?:[^\"\\]|\\.)*\"\s*,?)+)", text):
            lits = re.findall(r"\"((?:[^\"\\]|\\.)*)\"", m.group(3))
            fmt = "".join(lits)
            line = text.count("\n", 0, m.start()) + 1
            sites.append((os.path.relpath(os.path.join(dp, n), SRC), line, m.group(1), fmt))
hit, miss = [], []
for rel, line, kind, fmt in sites:
    rx = re.escape(fmt.replace("\\\"", '"'))
    rx = re.sub(r"\\\{[^}]*\\\}", ".*", rx)
    rx = "^" + rx
    (hit if any(re.search(rx, s, re.S) for s in seen) else miss).append((rel, line, kind, fmt))
print("sites: %d, triggered: %d, never triggered: %d" % (len(sites), len(hit), len(miss)))
for rel, line, kind, fmt in sorted(miss):
    print("  MISSING %s:%d %s!(%r)" % (rel, line, kind, fmt[:90]))
