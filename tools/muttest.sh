#!/bin/bash
# usage: tools/muttest.sh <Cxx> <file-relative-to-/repo> <sed-expression>   -- apply, run quick check, revert
pid=$1; f=$2; expr=$3
cd /repo && sed -i "$expr" "$f" && git diff --stat | tail -1
if git diff --quiet; then echo "MUTATION DID NOT APPLY"; exit 3; fi
cd /verif && ./check $pid quick 2>/dev/null | tail -4
git -C /repo checkout -- .
