#!/bin/bash
# usage: tools/seedproc.sh <Cxx> <seed-id> <worktree>   -- confirm a seeded change in its scratch worktree, store it, run our check on it
pid=$1; sid=$2; wt=$3
export CARGO_NET_OFFLINE=true
out=/verif/seeded/$sid
mkdir -p $out
cd $wt || exit 2
git diff -- src > /tmp/seed/$sid.current.diff
echo "== tests with the change"
cargo test --offline 2>&1 | grep "test result" | tee /tmp/seed/$sid.tests.txt
echo "== demo with the change (should fail)"
cargo build --offline -q 2>/dev/null
bash OUT/demo.sh > /tmp/seed/$sid.demo_changed.txt 2>&1; echo "exit $?" | tee -a /tmp/seed/$sid.demo_changed.txt
tail -3 /tmp/seed/$sid.demo_changed.txt
echo "== demo without the change (should pass)"
git apply -R OUT/patch.diff
cargo build --offline -q 2>/dev/null
bash OUT/demo.sh > /tmp/seed/$sid.demo_base.txt 2>&1; echo "exit $?" | tee -a /tmp/seed/$sid.demo_base.txt
tail -3 /tmp/seed/$sid.demo_base.txt
git apply OUT/patch.diff
cp OUT/patch.diff $out/patch.diff
cp -r OUT/* $out/ 2>/dev/null
cp /tmp/seed/$sid.demo_changed.txt $out/demo_with_change.txt; cp /tmp/seed/$sid.demo_base.txt $out/demo_without_change.txt; cp /tmp/seed/$sid.tests.txt $out/tests_with_change.txt
echo "== our check on /repo with the change applied"
cd /repo && git apply $out/patch.diff && git diff --stat | tail -1
cd /verif && ./check $pid quick 2>/dev/null | grep -E "VIOLATION|OK|KNOWN|could not" | head -5 | tee $out/check_output.txt
git -C /repo checkout -- .
