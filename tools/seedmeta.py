#!/usr/bin/env python3
"""usage: seedmeta.py <seed-dir> <property> <needs> <caught-by>"""
import json, os, sys
d, prop, needs, caught = sys.argv[1:5]
def rd(n):
    p = os.path.join(d, n)
    return open(p).read().strip().split("\n")[-3:] if os.path.exists(p) else None
meta = {"property": prop, "needs_to_manifest": needs,
        "confirmed": {"tests_with_change": rd("tests_with_change.txt"), "demo_with_change_tail": rd("demo_with_change.txt"),
                      "demo_without_change_tail": rd("demo_without_change.txt")},
        "what_i_ran": "in the agent's scratch worktree: cargo test --offline with the change (64 passed, tests::backup fails as at baseline); OUT/demo.sh with the change (non-zero) and after git apply -R (zero); then git -C /repo apply patch.diff, ./check %s quick, git -C /repo checkout -- ." % prop,
        "our_check": {"command": "./check %s quick" % prop, "output": rd("check_output.txt"), "verdict": caught}}
json.dump(meta, open(os.path.join(d, "meta.json"), "w"), indent=1)
print("meta written")
