"""C07 - local rotation and retention stay within the configured bounds.
Tie: real `vsb backup` runs under a fake clock (same day, +1 h, next day, gaps) with limits 1..4 x 1..4 changed
between runs and storages seeded with debris; after every run the storage listing is compared with the Gallina
model (Verify.publish followed by gc) and the property's statement is evaluated on the real listing."""
import os
import time

from vlib import build, runs, slevel, trace


def run(ctx):
    thorough = ctx.tier == "thorough"
    rng = ctx.rng
    build.ensure_vsb()
    build.ensure_vsbh()
    nhist, nruns = (60, 14) if thorough else (7, 9)
    ctx.rule = ("%d histories of %d runs each: limits drawn from 1..4 x 1..4 and changed between runs with probability 0.2; a fifth of the runs fail hard (ENOSPC / EIO / EACCES injected into write / fsync / rename / mkdir); clock steps "
                "{+1 s, +2 s, +1 h, +11 h, next day, +9 days}; before a run, with probability 0.3, debris is seeded (hidden / foreign files at "
                "root or group level, abandoned temporary, backup directory missing a file, empty older group, foreign directory with a group-like prefix). Compared after every run: "
                "group and backup names vs Verify.publish + gc; evaluated: group sizes, number of groups, which groups were removed, that "
                "nothing is removed from a storage with unlistable entries or by an unpublished run. Non-trivial: a published run; distinct by "
                "(clock, tree size, edits, group sizes)." % (nhist, nruns))
    for h in range(nhist):
        with slevel.Sandbox("c07") as sb:
            H = runs.History(ctx, sb, rng, "C07", rng.randrange(1, 5), rng.randrange(1, 5), nitems=1)
            H.w.populate(nfiles=4)
            for i in range(nruns):
                if rng.random() < 0.2:
                    H.change_limits()
                if rng.random() < 0.3:
                    H.seed_debris()
                kw = None
                if rng.random() < 0.2:
                    # a run that fails hard before publishing (I/O error while writing / syncing / renaming) must delete nothing
                    sc, k, err = rng.choice([("write", 8, "ENOSPC"), ("write", 12, "EIO"), ("fsync", 1, "EIO"), ("fsync", 2, "EIO"), ("rename", 1, "EACCES"), ("mkdir", 2, "ENOSPC")])
                    kw = {"prefix": trace.strace_cmd(sb.path("inj.txt"), trace.STORAGE_CALLS, inject=["%s:error=%s:when=%d" % (sc, err, k)])}
                    ctx.count("run.with-injected-failure")
                H.run(nedits=rng.randrange(0, 2), backup_kwargs=kw)
                if len(ctx.violations) >= 3:
                    break
            H.report_diffs("rotation-retention")
            if len(ctx.samples) < 3:
                ctx.sample({"history": H.log[:6]})
        if ctx.violations:
            break
    # targeted: a foreign directory whose name only starts like a group name (kept by hand: "<date>.old") lies in the root while the storage
    # goes over the limit: it is an unlistable entry - nothing may be deleted, least of all the directory itself; once it is gone, rotation resumes
    for suffix, note in ([(".old", True), ("-copy", False), ("\u0662\u0660\u0662\u0660.\u0660\u0661.\u0660\u0662", True)] if not ctx.violations else []):
        with slevel.Sandbox("c07f") as sb:
            H = runs.History(ctx, sb, rng, "C07", 1, 1)
            H.w.populate(nfiles=3)
            H.advance = lambda: None
            H.now = runs.BASE + 3600
            H.run(nedits=0)
            foreign = os.path.join(H.w.st, time.strftime("%Y.%m.%d", time.gmtime(runs.BASE - 500 * 86400)) + suffix)
            if not suffix.startswith((".", "-")):
                foreign = os.path.join(H.w.st, suffix)         # a date in decimal digits that are not ASCII: sorts after every real group
            os.mkdir(foreign, 0o700)
            if note:
                open(os.path.join(foreign, ".note"), "w").close()
            H.debris_seeded = True
            H.dec = H.w.decode()
            H.log.append({"debris": "foreign directory %s" % os.path.basename(foreign)})
            ctx.count("targeted.group-like-foreign-directory")
            H.now += 86400
            H.run(nedits=1)
            if not os.path.isdir(foreign) and not ctx.violations:
                H.violation("C07", "the foreign directory %s in the storage root was deleted by the run" % os.path.basename(foreign))
            if not ctx.violations:
                import shutil
                shutil.rmtree(foreign)
                H.dec = H.w.decode()
                H.log.append({"debris removed": os.path.basename(foreign)})
                H.now += 86400
                H.run(nedits=1)
            H.report_diffs("rotation-retention")
    # targeted: the storage is full (max_backup_groups groups, newest one full), the next day's run opens a new group and then
    # fails hard before publishing: nothing may be deleted
    for (mg, mp) in ([(1, 1), (2, 1), (1, 2), (3, 2)] if not ctx.violations else []):
        with slevel.Sandbox("c07t") as sb:
            H = runs.History(ctx, sb, rng, "C07", mg, mp)
            H.w.populate(nfiles=3)
            H.advance = lambda: None            # the clock of this scenario is set explicitly
            day = 0
            for g in range(mg):
                for b in range(mp):
                    H.now = runs.BASE + day * 86400 + 3600 + b * 60
                    H.run(nedits=1)
                day += 1
            for k, inj in enumerate(("fsync:error=EIO:when=1", "rename:error=ENOSPC:when=1")):
                ctx.count("targeted.full-storage-failing-run")
                H.now = runs.BASE + (day + k) * 86400 + 7200
                H.run(nedits=1, backup_kwargs={"prefix": trace.strace_cmd(sb.path("inj.txt"), trace.STORAGE_CALLS, inject=[inj])})
            H.report_diffs("rotation-retention")
        if ctx.violations:
            break
    ctx.traces = ctx.evaluations
    ctx.assumptions += ["chrono formats the faked CLOCK_REALTIME as the names the driver computes (TZ=UTC)",
                        "the clock does not go backwards between runs (the driver only advances it)"]


def replay(ctx, doc):
    print("replay: histories are regenerated deterministically from VERIF_SEED; the failing history is in the replay file")
    return 0
