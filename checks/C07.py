"""C07 - local rotation and retention stay within the configured bounds.
Tie: real `vsb backup` runs under a fake clock (same day, +1 h, next day, gaps) with limits 1..4 x 1..4 changed
between runs and storages seeded with debris; after every run the storage listing is compared with the Gallina
model (Verify.publish followed by gc) and the property's statement is evaluated on the real listing."""
from vlib import build, runs, slevel


def run(ctx):
    thorough = ctx.tier == "thorough"
    rng = ctx.rng
    build.ensure_vsb()
    build.ensure_vsbh()
    nhist, nruns = (60, 14) if thorough else (7, 9)
    ctx.rule = ("%d histories of %d runs each: limits drawn from 1..4 x 1..4 and changed between runs with probability 0.2; clock steps "
                "{+1 s, +2 s, +1 h, +11 h, next day, +9 days}; before a run, with probability 0.3, debris is seeded (hidden / foreign files at "
                "root or group level, abandoned temporary, backup directory missing a file, empty older group). Compared after every run: "
                "group and backup names vs Verify.publish + gc; evaluated: group sizes, number of groups, which groups were removed, that "
                "nothing is removed from a storage with unlistable entries or by an unpublished run. Non-trivial: a published run; distinct by "
                "(clock, tree size, edits, group sizes)." % (nhist, nruns))
    for h in range(nhist):
        with slevel.Sandbox("c07") as sb:
            H = runs.History(ctx, sb, rng, "C07", rng.randrange(1, 5), rng.randrange(1, 5), nitems=1)
            H.w.populate(nfiles=4)
            for i in range(nruns):
                if rng.random() < 0.2:
                    H.change_limits()
                if rng.random() < 0.3:
                    H.seed_debris()
                H.run(nedits=rng.randrange(0, 2))
                if len(ctx.violations) >= 3:
                    break
            H.report_diffs("rotation-retention")
            if len(ctx.samples) < 3:
                ctx.sample({"history": H.log[:6]})
        if ctx.violations:
            break
    ctx.traces = ctx.evaluations
    ctx.assumptions += ["chrono formats the faked CLOCK_REALTIME as the names the driver computes (TZ=UTC)",
                        "the clock does not go backwards between runs (the driver only advances it)"]


def replay(ctx, doc):
    print("replay: histories are regenerated deterministically from VERIF_SEED; the failing history is in the replay file")
    return 0
