"""C03 - publication is atomic and completed backups are immutable under crashes and faults.
Tie: for each scenario (first backup, append, rotation with removal of an old group, start-up with an abandoned
temporary, name collision within a second) a reference run of the real `vsb backup` is traced; then the same run is
repeated from the same storage state with the process KILLED at a chosen storage call or the call FAILING with
ENOSPC / EIO / EACCES (strace inject).  After each, the real storage is examined (every final-named backup complete and
decodable, every older backup byte-for-byte unchanged, unfinished work only under dot names, a failing run removes its
temporary and exits non-zero), compared with the Gallina namespace model applied to the same prefix of calls, and a
follow-up run must recover."""
import os
import shutil
import subprocess
import time

from vlib import build, runs, slevel, trace, model

INJECTABLE = {"mkdir": "mkdir", "create": "openat", "write": "write", "fsync": "fsync", "rename": "rename", "remove": None}


def file_digests(root):
    d = {}
    for rel, n in slevel.scan(root).items():
        if n["type"] == "file":
            d[rel] = n["sha512"]
    return d


def group_state(st, group):
    """names in the group with the lengths of the two files, as the model's fs"""
    out = {}
    gp = os.path.join(st, group)
    if not os.path.isdir(gp):
        return None
    for n in os.listdir(gp):
        p = os.path.join(gp, n)
        if os.path.isdir(p):
            m = os.path.join(p, "metadata.zst")
            d = os.path.join(p, "data.tar.zst")
            out[n] = (os.path.getsize(m) if os.path.exists(m) else None, os.path.getsize(d) if os.path.exists(d) else None)
    return out


class Scenario:
    def __init__(self, ctx, rng, kind, sb):
        self.ctx, self.rng, self.kind, self.sb = ctx, rng, kind, sb
        if kind == "first":
            H = runs.History(ctx, sb, rng, "C03", 3, 3)
            pre = 0
        elif kind == "append":
            H = runs.History(ctx, sb, rng, "C03", 3, 4)
            pre = 2
        elif kind == "rotate":
            H = runs.History(ctx, sb, rng, "C03", 1, 1)
            pre = 2
        elif kind == "temp":
            H = runs.History(ctx, sb, rng, "C03", 3, 4)
            pre = 1
        elif kind == "templast":    # the abandoned temporary sits in the last free slot of its group: complete backups + temporaries = max_backups_per_group
            H = runs.History(ctx, sb, rng, "C03", 3, 2)
            pre = 1
        elif kind == "bulk":    # files large enough for the archive to be written out while the walk is still going on
            H = runs.History(ctx, sb, rng, "C03", 3, 4)
            pre = 1
        else:       # collision: the final name of this second already exists
            H = runs.History(ctx, sb, rng, "C03", 3, 4)
            pre = 1
        self.H = H
        H.w.populate(nfiles=rng.randrange(3, 7))
        for _ in range(pre):
            H.run(nedits=1)
            H.now += 86400 if kind == "rotate" else 7
        if kind in ("temp", "templast"):
            la, _ = runs.listing(H.dec)
            g = la[-1][0]
            t = "." + time.strftime("%Y.%m.%d-%H:%M:%S", time.gmtime(H.now - 3))
            os.makedirs(os.path.join(H.w.st, g, t))
            with open(os.path.join(H.w.st, g, t, "data.tar.zst"), "w") as f:
                f.write("partial")
        H.w.edit()
        if kind == "bulk":
            top = os.path.join(H.w.src, H.w.items[0])
            for i in range(4):
                H.w.write_file(os.path.join(top, "bulk%d.bin" % i), rng.randbytes(rng.randrange(150000, 400000)))
        if kind == "collision":
            # the next run starts within the second of the last published backup
            la, _ = runs.listing(H.dec)
            last = la[-1][1][-1]
            import calendar
            H.now = calendar.timegm(time.strptime(last, "%Y.%m.%d-%H:%M:%S"))
        else:
            H.advance()
        self.name = H.name_of_now()
        self.orig = sb.path("st.orig")
        shutil.copytree(H.w.st, self.orig, symlinks=True)
        self.before_digests = file_digests(self.orig)
        self.before_listing, _ = runs.listing(H.w.decode())

    def reset(self):
        shutil.rmtree(self.H.w.st)
        shutil.copytree(self.orig, self.H.w.st, symlinks=True)

    def traced(self, inject=None):
        tf = self.sb.path("trace.txt")
        if os.path.exists(tf):
            os.remove(tf)
        rc, out = self.sb.vsb(["backup", "w"], now=self.H.now, prefix=trace.strace_cmd(tf, trace.STORAGE_CALLS, inject=inject))
        ev = trace.parse(tf)
        main = ev[0]["pid"] if ev else None
        evm = [e for e in ev if e["pid"] == main]
        return rc, out, evm


def ordinal(events, idx):
    """1-based ordinal of events[idx] among the calls of the same name"""
    name = events[idx]["name"]
    return sum(1 for e in events[:idx + 1] if e["name"] == name)


def model_state(s0, group, names, ops_prefix, cleanup_temp=None):
    wire_s0 = []
    for n, (m, d) in s0.items():
        t = 1 if n.startswith(".") else 0
        wire_s0.append([t, names.setdefault(n.lstrip("."), len(names) + 1), [m] if m is not None else [], [d] if d is not None else []])
    wops = []
    for o in ops_prefix:
        r = o.get("rel") or ""
        parts = r.split("/")
        if parts[0] != group or not o.get("ok", True):
            continue

        def nm(n):
            return [1 if n.startswith(".") else 0, names.setdefault(n.lstrip("."), len(names) + 1)]
        if o["op"] == "mkdir" and len(parts) == 2:
            wops.append([0] + nm(parts[1]))
        elif o["op"] == "create" and len(parts) == 3:
            wops.append([1] + nm(parts[1]) + [0 if parts[2] == "metadata.zst" else 1])
        elif o["op"] == "write" and len(parts) == 3:
            wops.append([2] + nm(parts[1]) + [0 if parts[2] == "metadata.zst" else 1, o["n"]])
        elif o["op"] == "rename" and o.get("to"):
            wops.append([4] + nm(parts[1]) + nm(o["to"].split("/")[1]))
        elif o["op"] == "remove" and len(parts) == 2 and o.get("dir"):
            wops.append([5] + nm(parts[1]))
    if cleanup_temp:
        wops.append([5, 1, names.setdefault(cleanup_temp.lstrip("."), len(names) + 1)])
    res = model.run_driver([[300, [wire_s0, wops]]])[0]
    inv = {v: k for k, v in names.items()}
    out = {}
    for t, k, m, d in res[1]:
        out[("." if t else "") + inv[k]] = (m[0] if m else None, d[0] if d else None)
    return out


def examine(sc, rc, label, detail, published=True):
    """the property on the real storage after an interrupted / failed run; returns a problem string or None"""
    H = sc.H
    dec = H.w.decode()
    la, _ = runs.listing(dec)
    # (b) every backup complete before is unchanged - unless its whole group is being deleted by retention
    now_d = file_digests(H.w.st)
    deleted_groups = {g for g, _, _, _ in sc.before_listing} - {g for g, _, _, _ in la}
    for rel, h in sc.before_digests.items():
        g = rel.split("/")[0]
        parts = rel.split("/")
        if len(parts) >= 2 and parts[1].startswith("."):
            continue        # abandoned temporaries may be removed
        if rel not in now_d:
            # a group under deletion may be partially removed (the property excludes groups being deleted) - but retention
            # only ever runs after publication: a run that did not publish must not have deleted anything
            if published and sc.kind == "rotate" and g != sc.name[:10]:
                continue
            return "%s: %s of a backup that was complete before the run has disappeared" % (label, rel)
        if now_d[rel] != h:
            return "%s: %s of a backup that was complete before the run has changed" % (label, rel)
    # (a) every final-named directory (in a group not being deleted) is a complete, decodable backup
    for g in dec["groups"]:
        if sc.kind == "rotate" and g["name"] != sc.name[:10]:
            continue
        for e in g["entries"]:
            n = e["name"]
            if e.get("dir") and len(n) == 19 and n[4] == "." and n[10] == "-":
                if not runs.recognised(e):
                    return "%s: final-named %s/%s lacks one of its two files" % (label, g["name"], n)
                if runs.parse_manifest(e) is None:
                    return "%s: final-named %s/%s has an undecodable manifest" % (label, g["name"], n)
                arch = e.get("archive", {})
                if "entries" not in arch or any("error" in x for x in arch["entries"]):
                    return "%s: final-named %s/%s has a truncated / undecodable data archive" % (label, g["name"], n)
    return None


def run_scenario(ctx, rng, kind, budget):
    with slevel.Sandbox("c03") as sb:
        sc = Scenario(ctx, rng, kind, sb)
        H = sc.H
        rc0, out0, ev0 = sc.traced()
        ops0 = trace.project(ev0, H.w.st)
        la0, _ = runs.listing(H.w.decode())
        published0 = any(sc.name in fin for _, fin, _, _ in la0)
        ctx.evaluations += 1
        ctx.count("scenario." + kind)
        if kind == "collision":
            # the rename must fail instead of replacing the complete backup; clean-up restores the group
            pr = examine(sc, rc0, "name collision", None)
            temp_left = any(t for _, _, t, _ in la0)
            if pr or rc0 == 0 or temp_left:
                ctx.violation("collision", pr or ("a run whose backup name collides with a complete backup exits %d and leaves temporaries=%s" % (rc0, temp_left)),
                              {"scenario": kind, "output": out0[-600:]})
            else:
                ctx.nontrivial.add(("collision", len(ops0)))
            return
        if rc0 != 0 or not published0:
            ctx.violation("reference", "correspondence reference-run no longer checks: the unfaulted run of scenario %s exits %d" % (kind, rc0),
                          {"output": out0[-600:]}, failing_input=False)
            return
        group = [g for g, fin, _, _ in la0 if sc.name in fin][0]
        s0 = group_state(sc.orig, group) or {}
        # injection points: every successful storage-side call of the reference run that strace can inject into
        points = []
        for j, o in enumerate(ops0):
            if o["op"] in INJECTABLE and INJECTABLE[o["op"]] and o.get("ok") and o.get("rel") is not None:
                evname = ev0[o["index"]]["name"]
                if evname in ("mkdir", "openat", "write", "fsync", "rename"):
                    points.append((j, o, evname, ordinal(ev0, o["index"])))
        # removal of the old group: unlink / unlinkat / rmdir calls
        for j, o in enumerate(ops0):
            if o["op"] == "remove" and o.get("ok"):
                evname = ev0[o["index"]]["name"]
                points.append((j, o, evname, ordinal(ev0, o["index"])))
        if budget is not None and len(points) > budget:
            keep = set(rng.sample(range(len(points)), budget))
            # always keep the rename and the calls around it
            for i, p in enumerate(points):
                if p[1]["op"] in ("rename", "fsync", "mkdir") or (kind == "bulk" and p[1]["op"] == "write" and p[1].get("rel", "").endswith("data.tar.zst")):
                    keep.add(i)
            points = [p for i, p in enumerate(points) if i in keep]
        if kind == "bulk" and budget is not None:
            dw = [p for p in points if p[1]["op"] == "write" and p[1].get("rel", "").endswith("data.tar.zst")]
            points = rng.sample(dw, min(len(dw), 6))
        for (j, o, evname, ordn) in points:
            for variant in (("ENOSPC", "KILL") if (kind == "bulk" and budget is not None) else ("KILL", "ENOSPC", "EIO", "EACCES")):
                if variant != "KILL" and o["op"] == "remove" and rng.random() < 0.5:
                    continue
                sc.reset()
                inj = "%s:%s:when=%d" % (evname, "signal=KILL" if variant == "KILL" else "error=" + variant, ordn)
                rc, out, ev = sc.traced(inject=[inj])
                ctx.evaluations += 1
                ctx.count("inject.%s.%s" % (variant, o["op"]))
                label = "%s at call %d (%s %s) of scenario %s" % (variant, j, o["op"], o.get("rel"), kind)
                ctx.nontrivial.add((kind, j, variant))
                la, _ = runs.listing(H.w.decode())
                problem = examine(sc, rc, label, None, published=any(sc.name in fin for _, fin, _, _ in la))
                own_temp = "." + sc.name
                temp_left = any(own_temp in t for _, _, t, _ in la)
                if not problem and variant != "KILL":
                    if rc == 0 and o["op"] != "remove":
                        problem = "%s: the call failed but the run exits 0" % label
                    elif temp_left:
                        problem = "%s: the failing run left its temporary directory %s behind" % (label, own_temp)
                if not problem:
                    # unfinished work only under dot names: any non-final, non-temporary entry is new debris
                    for g, _, _, other in la:
                        if kind == "rotate" and g != sc.name[:10] and any(sc.name in fin for _, fin, _, _ in la):
                            continue    # the old group is being deleted by retention after publication: excluded by the property
                        before_other = [x for gg, _, _, oo in sc.before_listing if gg == g for x in oo]
                        if [x for x in other if x not in before_other]:
                            problem = "%s: unfinished work visible under a non-temporary name: %s" % (label, other)
                if problem:
                    ctx.violation("inject", problem, {"scenario": kind, "injection": inj, "exit": rc, "output": out[-800:]})
                    return
                # the namespace model on the same prefix of calls
                pre_rename = not any(x["op"] == "rename" and x.get("ok") for x in ops0[:j])
                if o["op"] != "remove":
                    cleanup = own_temp if (variant != "KILL" and pre_rename) else None
                    exp = model_state(s0, group, {}, ops0[:j], cleanup_temp=cleanup)
                    got = group_state(H.w.st, group)
                    if got is None and not exp:
                        got = {}
                    # a fault on the mkdir of a NEW group leaves no group at all; the model speaks about an existing group
                    if got is not None and {k: v for k, v in exp.items()} != got:
                        # writes: the kernel may have completed part of the interrupted buffered write; compare names and file presence
                        if {k: (v[0] is not None, v[1] is not None) for k, v in exp.items()} != {k: (v[0] is not None, v[1] is not None) for k, v in got.items()}:
                            ctx.violation("inject-model", "correspondence namespace-model no longer checks: after %s the group holds %s, the model predicts %s"
                                          % (label, got, exp), {"scenario": kind, "injection": inj}, failing_input=False)
                            return
                # recovery: the next run on that storage removes abandoned temporaries of the group it uses and publishes
                H.now += 3
                rc2, out2 = sb.vsb(["backup", "w"], now=H.now)
                H.now -= 3
                la2, _ = runs.listing(H.w.decode())
                nm2 = time.strftime("%Y.%m.%d-%H:%M:%S", time.gmtime(H.now + 3))
                pub2 = [g for g, fin, _, _ in la2 if nm2 in fin]
                if not pub2:
                    # "a new group on the same day is refused" is legitimate only when the newest group is genuinely full of complete backups
                    newest_full = bool(la) and len(la[-1][1]) >= H.w.max_per
                    if not ("already exists" in out2 and newest_full):
                        ctx.violation("recover", "%s: the follow-up run does not publish (exit %d)" % (label, rc2), {"scenario": kind, "injection": inj, "output": out2[-800:]})
                        return
                    ctx.count("recover.group-exists")
                else:
                    if any(t for g, _, t, _ in la2 if g == pub2[0]):
                        ctx.violation("recover", "%s: the follow-up run left abandoned temporaries in the group it used" % label, {"scenario": kind, "injection": inj})
                        return
                    ctx.count("recover.published")
        ctx.traces += 1


def run(ctx):
    thorough = ctx.tier == "thorough"
    rng = ctx.rng
    build.ensure_vsb()
    build.ensure_vsbh()
    budget = None if thorough else 7
    ctx.rule = ("7 scenarios (new files of 150-400 kB so that the archive is written out during the walk - every write to data.tar.zst is faulted; first backup; append; rotation with removal of the old group; abandoned temporary present - also in the last free slot of its group; two runs within one "
                "second) ; in each the reference run's storage calls (mkdir, O_EXCL create, write, fsync, rename, unlink/rmdir) are enumerated and "
                "%s of them are re-run with the process killed at the call and with the call failing with ENOSPC / EIO / EACCES; each injected run is "
                "followed by a recovery run. Non-trivial: every injected run; distinct by (scenario, call index, variant)."
                % ("ALL" if thorough else "the mkdir / fsync / rename calls plus a sample of 7"))
    for kind in ("bulk", "first", "append", "rotate", "temp", "templast", "collision"):
        run_scenario(ctx, rng, kind, budget)
        if ctx.violations:
            break
    ctx.assumptions += ["rename(2) and mkdir(2) are atomic in the kernel", "strace injection makes the chosen call fail / kills the process on entering it",
                        "replaying the run from the same storage and source state issues the same sequence of calls (checked: the reference trace is re-derived per scenario)"]


def replay(ctx, doc):
    print("replay: re-run ./check C03 with the same VERIF_SEED; the injection is in the replay file:", doc.get("injection"))
    return 0
