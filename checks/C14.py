"""C14 - filters decide inclusion by first matching rule.
Tie: real PathFilter::new / check (globset underneath) vs the Gallina model of the glob parser, the byte-level token
semantics, vsb's pre-unescaping and rule-line parsing, on specs generated from a token grammar with paths derived
from the globs, an exhaustive small universe, and a malformed stream."""
import itertools
import os
import re

from vlib import sexp

NAMES = ["a", "b", ".a"]


class Glob:
    """A glob built from structure, so that an independent regex for it is known."""

    def __init__(self):
        self.text = ""
        self.rx = b""
        self.inst = []      # list of callables rng -> str producing a matching instantiation piece

    def add(self, text, rx, inst):
        self.text += text
        self.rx += rx
        self.inst.append(inst)


def lit_atom(s):
    esc = s.replace(" ", "\\ ").replace("\t", "\\t")
    return esc, re.escape(s.encode()), (lambda rng, s=s: s)


def atoms(rng):
    r = rng.random()
    if r < 0.45:
        return lit_atom(rng.choice(["a", "b", ".a", "ab", "x.o", "é", "a b", "c\td", "-", "a,b"]) if rng.random() < 0.8 else rng.choice(["a", "b"]))
    if r < 0.65:
        return "*", b"[^/]*", (lambda rng: rng.choice(["", "a", "ab", ".a", "é", "b.o"]))
    if r < 0.75:
        return "?", b"[^/]", (lambda rng: rng.choice(["a", "b", ".", "x"]))
    if r < 0.88:
        parts = [rng.choice(["a", "b", ".a", "x.o", "*", "a?"]) for _ in range(rng.randrange(1, 4))]
        rxp = []
        for p in parts:
            rxp.append(b"".join(b"[^/]*" if ch == "*" else b"[^/]" if ch == "?" else re.escape(ch.encode()) for ch in p))
        def inst(rng, parts=parts):
            p = rng.choice(parts)
            return p.replace("*", rng.choice(["", "z", "zz"])).replace("?", "q")
        return "{" + ",".join(parts) + "}", b"(?:" + b"|".join(rxp) + b")", inst
    kind = rng.choice(["[ab]", "[!ab]", "[a-c]", "[!a-c]", "[.a]"])
    rx = {"[ab]": b"[ab]", "[!ab]": b"[^ab]", "[a-c]": b"[a-c]", "[!a-c]": b"[^a-c]", "[.a]": b"[.a]"}[kind]
    pick = {"[ab]": "ab", "[!ab]": "cx.", "[a-c]": "abc", "[!a-c]": "dx.", "[.a]": ".a"}[kind]
    return kind, rx, (lambda rng, pick=pick: rng.choice(pick))


def gen_glob(rng):
    g = Glob()
    nseg = rng.choice([1, 1, 2, 2, 3])
    if rng.random() < 0.05:
        g.add("**", b".*", lambda rng: rng.choice(["", "a", "a/b"]))
        return g
    if rng.random() < 0.25:
        g.add("**/", b"(?:/?|.*/)", lambda rng: rng.choice(["", "a/", "a/b/", ".a/"]))
    for i in range(nseg):
        if i > 0:
            if rng.random() < 0.15:
                g.add("/**/", b"(?:/|/.*/)", lambda rng: rng.choice(["/", "/a/", "/a/b/"]))
            else:
                g.add("/", b"/", lambda rng: "/")
        for _ in range(rng.choice([1, 1, 2, 3])):
            t, rx, inst = atoms(rng)
            if t == "*" and g.text.endswith("*"):
                continue        # two adjacent stars would be the recursive token, not two atoms
            g.add(t, rx, inst)
        if g.text.endswith("/") or g.text == "":
            g.add(*lit_atom("a"))
    if rng.random() < 0.2:
        g.add("/**", b"/.*", lambda rng: rng.choice(["/a", "/a/b", "/"]))
    return g


def paths_for(rng, globs, n):
    out = []
    for _ in range(n):
        if globs and rng.random() < 0.8:
            g = rng.choice(globs)
            p = "".join(f(rng) for f in g.inst)
            m = rng.random()
            if m < 0.15 and p:
                i = rng.randrange(len(p))
                p = p[:i] + "/" + p[i:]
            elif m < 0.25:
                p = p + "/" + rng.choice(NAMES)
            elif m < 0.33:
                p = rng.choice(NAMES) + "/" + p
            elif m < 0.4 and p:
                i = rng.randrange(len(p))
                p = p[:i] + p[i + 1:]
            elif m < 0.45 and p:
                i = rng.randrange(len(p))
                p = p[:i] + rng.choice("ab./") + p[i + 1:]
        else:
            p = "/".join(rng.choice(NAMES + ["ab", "x.o"]) for _ in range(rng.randrange(1, 5)))
        out.append(p)
    return out


def oracle_verdict(rules, path):
    pb = path.encode()
    for rx, allow in rules:
        if re.fullmatch(rx, pb, flags=re.S):
            return allow
    return True


def spec_text(rng, rules):
    lines = []
    for g, allow in rules:
        if rng.random() < 0.15:
            lines.append(rng.choice(["", "  ", "# comment", "\t# - a", "#"]))
        lines.append(rng.choice(["", "", " ", "\t", "  "]) + ("+ " if allow else "- ") + g.text + rng.choice(["", "", " ", "\t ", "  "]))
    sep = "\r\n" if rng.random() < 0.1 else "\n"
    return sep.join(lines) + rng.choice(["", sep])


def case_of(spec, paths):
    return [1400, [[ord(c) for c in spec], [list(p.encode()) for p in paths]]]


MALFORMED = ["{a", "a}", "[a", "[]", "[!]", "a**", "**a", "a**/b", "a/**b", "{a,{b,c}}", "\\", "a\\", "{}", "{,}", "[a-]", "[z-a]", "***", "a/***/b",
             "**/**", "/**", "**/", "a//b", "{a/b,c}", "[/]", "[!/]", "\\*", "\\?", "\\[a\\]", "\\{a\\}", "a\\nb", "a\\rb", "\\\\", "a\\ ", "\\ta", "{**/a,b}",
             "{a,b}/**/{c,d}", "*/", "?*", "*?*", "**/*", "**/*/**", "a/**/**/b"]
BADLINES = ["+a", "-  ", "* a", "+", "-", "+ ", "a", "++ a", "+\ta", "- \\", "  +  a"]


def run(ctx):
    thorough = ctx.tier == "thorough"
    rng = ctx.rng
    ctx.rule = ("(1) exhaustive: every glob of up to %d tokens over {a, b, ., *, ?, /, **/, /**, {a,b}} as a single '-' rule, and sampled pairs of "
                "them as two-rule lists with both sign orders, against ALL paths of depth <= 3 over {a, b, .a}; (2) %d specs of 1..4 rules from "
                "a token grammar (literals incl. multi-byte, escaped space/tab, *, ?, **/, /**, /**/, {..}, classes) with paths derived from "
                "the globs and mutated; (3) a malformed stream (bad globs, bad rule lines). Non-trivial: the spec is accepted and has a rule; "
                "distinct by spec text." % (4 if thorough else 3, 3000 if thorough else 400))
    oracle = {}
    cases = []
    # (1) exhaustive small universe
    toks = ["a", "b", ".", "*", "?", "/", "**/", "/**", "{a,b}"]
    allpaths = []
    for d in (1, 2, 3):
        for names in itertools.product(NAMES, repeat=d):
            allpaths.append("/".join(names))
    globs = []
    for n in range(1, (4 if thorough else 3) + 1):
        for seq in itertools.product(toks, repeat=n):
            globs.append("".join(seq))
    globs = sorted(set(globs))
    for g in globs:
        cases.append(case_of("- " + g, allpaths))
    pairs = rng.sample(list(itertools.product(globs, repeat=2)), 3000 if thorough else 400)
    for g1, g2 in pairs:
        cases.append(case_of("- %s\n+ %s" % (g1, g2), allpaths))
        cases.append(case_of("+ %s\n- %s" % (g1, g2), allpaths))
    ctx.count("exhaustive.single_rule_specs", len(globs))
    ctx.count("exhaustive.paths_per_spec", len(allpaths))
    # (2) grammar
    for _ in range(3000 if thorough else 400):
        rules = [(gen_glob(rng), rng.random() < 0.4) for _ in range(rng.randrange(1, 5))]
        spec = spec_text(rng, rules)
        paths = paths_for(rng, [g for g, _ in rules], 12)
        c = case_of(spec, paths)
        oracle[sexp.dumps(c)] = ([(g.rx, a) for g, a in rules], paths)
        cases.append(c)
    # (3) malformed
    for g in MALFORMED:
        cases.append(case_of("- " + g, allpaths[:12] + ["a/b/c/d", "*", "?", "[a]", "{a}", "a\nb", "a b", "\ta", "\\"]))
        cases.append(case_of("+ a\n- " + g + "\n- *", allpaths[:6]))
    for l in BADLINES:
        cases.append(case_of(l, ["a"]))
        cases.append(case_of("- b\n" + l + "\n", ["a", "b"]))
    for _ in range(2000 if thorough else 300):
        n = rng.randrange(1, 7)
        g = "".join(rng.choice(["a", "b", "/", "*", "**", "?", "{", "}", ",", "[", "]", "!", "-", "\\", " ", ".", "é"]) for _ in range(n))
        cases.append(case_of("- " + g, allpaths[:10] + [g]))

    def expected(c, m):
        return m

    def observed(c, r):
        return r

    def prop_ok(c, r):
        key = sexp.dumps(c)
        if key not in oracle:
            # first-match composition is checked below for the generated class; others are tie-only
            return True, ""
        rules, paths = oracle[key]
        spec = "".join(chr(x) for x in c[1][0])
        if r[0] != 1:
            return False, "a well-formed spec was rejected or a check failed: %r" % spec
        for p, v in zip(paths, r[1]):
            want = oracle_verdict(rules, p)
            if bool(v) != want:
                return False, "spec %r: path %r is %s, the first matching rule says %s" % (
                    spec, p, "allowed" if v else "denied", "allow" if want else "deny")
        return True, ""

    def nontrivial(c, m):
        return bytes(c[1][0][:200]).hex() if False else ("".join(chr(x) for x in c[1][0]) if m[0] == 1 and c[1][0] else None)

    def describe(c):
        return {"spec": "".join(chr(x) for x in c[1][0]), "paths": [bytes(p).decode("utf-8", "replace") for p in c[1][1][:6]]}

    mres, ires = ctx.correspond("filter", cases, expected, observed, prop_ok, nontrivial=nontrivial, describe=describe)
    acc = sum(1 for m in mres if m[0] == 1)
    ctx.count("specs.accepted", acc)
    ctx.count("specs.rejected", len(mres) - acc)
    denied = sum(1 for m in mres if m[0] == 1 for v in m[1] if v == 0)
    allowed = sum(1 for m in mres if m[0] == 1 for v in m[1] if v == 1)
    ctx.count("verdicts.denied", denied)
    ctx.count("verdicts.allowed", allowed)
    ctx.extra["pairs_compared"] = denied + allowed
    walker_part(ctx)
    if not ctx.has_failing_input():
        multi_item_part(ctx)
    ctx.extra["exhaustive"] = True
    ctx.notes.append("pruning of excluded directories by the walker is proved on the walker model (archived_iff); its tie to the real binary "
                     "(trees backed up for real, path set vs each item's own rules, with missing / overlapping earlier items) is walker_part and multi_item_part of this run")
    ctx.assumptions += ["globset's regex engine implements the regular language of each token (the parser and the token -> language "
                        "translation are modelled and compared, the engine is not)"]


# (rule lines, independent reading of each rule as (regex on the item-relative path, allow))
WALK_FILTERS = [
    (["- d1"], [(rb"d1", False)]),
    (["+ d1/c.txt", "- d1"], [(rb"d1/c\.txt", True), (rb"d1", False)]),
    (["- d1/*", "+ **"], [(rb"d1/[^/]*", False), (rb".*", True)]),
    (["- **/*.o", "- .hid"], [(rb"(?:/?|.*/)[^/]*\.o", False), (rb"\.hid", False)]),
    (["+ d2/**", "- *"], [(rb"d2/.*", True), (rb"[^/]*", False)]),
    (["- d1/d2", "+ d1/**", "- **"], [(rb"d1/d2", False), (rb"d1/.*", True), (rb".*", False)]),
    (["- sp\\ ace"], [(rb"sp ace", False)]),
    (["- {d1,d2}/c.txt"], [(rb"(?:d1|d2)/c\.txt", False)]),
    (["- [ab]"], [(rb"[ab]", False)]),
    (["- ?"], [(rb"[^/]", False)]),
    (["+ **/c.txt", "- d2/**"], [(rb"(?:/?|.*/)c\.txt", True), (rb"d2/.*", False)]),
]


def allowed_by(rules, rel):
    for rx, allow in rules:
        if re.fullmatch(rx, rel, flags=re.S):
            return allow
    return True


def walker_part(ctx):
    """real `vsb backup` runs with filters: the archived path set vs the walker + filter model (pruning: nothing below an
    excluded directory is backed up, even when a deeper rule would allow it; the item root is never filtered)"""
    from vlib import build, runs, slevel
    build.ensure_vsb()
    rng = ctx.rng
    n = 40 if ctx.tier == "thorough" else 6
    for k in range(n):
        with slevel.Sandbox("c14") as sb:
            f, rules = rng.choice(WALK_FILTERS)
            H = runs.History(ctx, sb, rng, "C14", 3, 3, nitems=1, filters=[f])
            H.w.populate(nfiles=14)
            res, published, name = H.run(nedits=0)
            ctx.count("walker.runs")
            if published:
                snap = H.snapshots[name]
                root = os.path.realpath(os.path.join(H.w.src, "item0"))
                kept = sum(1 for x in snap if x["path"].startswith(root + "/"))
                total = sum(len(d) + len(fl) for _, d, fl in os.walk(root))
                ctx.count("walker.paths_kept", kept)
                ctx.count("walker.paths_excluded", total - kept)
                # the property, evaluated on the real backup: a path below the root is in the archive iff every non-empty
                # prefix of its item-relative path is allowed by the first matching rule
                dec = H.dec
                g = [x for x in dec["groups"] if any(e["name"] == name for e in x["entries"])][0]
                b = [e for e in g["entries"] if e["name"] == name][0]
                have = {bytes.fromhex(e["path_hex"]).rstrip(b"/") for e in b["archive"]["entries"]}
                rootb = os.fsencode(root)
                for dp, dn, fl in os.walk(rootb):
                    for nme in dn + fl:
                        full = os.path.join(dp, nme)
                        st_ = os.lstat(full)
                        import stat as _stat
                        if not (_stat.S_ISREG(st_.st_mode) or _stat.S_ISDIR(st_.st_mode) or _stat.S_ISLNK(st_.st_mode)):
                            continue
                        rel = full[len(rootb) + 1:]
                        parts = rel.split(b"/")
                        want = all(allowed_by(rules, b"/".join(parts[:i + 1])) for i in range(len(parts)))
                        got = full.lstrip(b"/") in have
                        if want != got:
                            ctx.violation("walker", "filter %r: %r is %s the backup, but %s" % (
                                f, rel.decode("utf-8", "replace"), "in" if got else "missing from",
                                "some prefix of it is denied by the first matching rule" if got else "every prefix of it is allowed"),
                                {"filter": f, "path": rel.decode("utf-8", "replace")})
                            return
                if rootb.lstrip(b"/") not in have:
                    ctx.violation("walker", "the item root itself is missing from the backup (filter %r)" % f, {"filter": f})
                    return
            H.report_diffs("walker-filter")
        if ctx.violations:
            break


def multi_item_part(ctx):
    """several items with different rule lists in one configuration, some of them impossible to back up in this run (path missing, or
    overlapping an earlier item): every item that is backed up is filtered by ITS OWN rule list, whatever happened to the items before it"""
    import shutil
    import stat as _stat
    from vlib import build, runs, slevel
    build.ensure_vsb()
    rng = ctx.rng
    n = 30 if ctx.tier == "thorough" else 6
    for k in range(n):
        with slevel.Sandbox("c14m") as sb:
            nitems = rng.randrange(2, 5)
            picks = [rng.choice(WALK_FILTERS + [([], [])]) for _ in range(nitems)]
            # neighbouring items get different rule lists
            for i in range(1, nitems):
                while picks[i][0] == picks[i - 1][0]:
                    picks[i] = rng.choice(WALK_FILTERS)
            w = runs.World(sb, rng, 3, 3, nitems=nitems, filters=[f or None for f, _ in picks])
            w.populate(nfiles=12)
            # the first case of a run always has its first item missing; later ones draw
            state = []
            for i in range(nitems):
                r = rng.random()
                if (k == 0 and i == 0) or (i < nitems - 1 and r < 0.35):
                    state.append("missing")
                elif i > 0 and r < 0.5 and state[0] == "present":
                    state.append("overlap")
                else:
                    state.append("present")
            for i, stt in enumerate(state):
                top = os.path.join(w.src, w.items[i])
                if stt == "missing":
                    shutil.rmtree(top)
                elif stt == "overlap":
                    shutil.rmtree(top)
                    os.symlink(os.path.join(w.src, w.items[0]), top)
            res = w.backup(1700000000 + k)
            ctx.count("multi.runs")
            for stt in state:
                ctx.count("multi.item." + stt)
            dec = w.decode()
            backups = [e for g in dec["groups"] for e in g["entries"] if e.get("archive", {}).get("entries") is not None]
            if not backups:
                ctx.violation("multi-item", "no backup was published for items %s: %s" % (state, res["errors"][:3]), {"items": state}, failing_input=False)
                return
            have = {bytes.fromhex(e["path_hex"]).rstrip(b"/") for e in backups[-1]["archive"]["entries"]}
            for i, stt in enumerate(state):
                if stt != "present":
                    continue
                rules = picks[i][1]
                rootb = os.fsencode(os.path.realpath(os.path.join(w.src, w.items[i])))
                # the Gallina filter model's verdicts for the same item (tag 1400, the item's own spec text): every item-relative path and prefix
                rels = set()
                for dp, dn, fl in os.walk(rootb):
                    for nme in dn + fl:
                        rel = os.path.join(dp, nme)[len(rootb) + 1:]
                        try:
                            rels.add(rel.decode())
                        except UnicodeDecodeError:
                            pass
                verdicts = w.allowed(i, sorted(rels))
                for dp, dn, fl in os.walk(rootb):
                    for nme in dn + fl:
                        full = os.path.join(dp, nme)
                        st_ = os.lstat(full)
                        if not (_stat.S_ISREG(st_.st_mode) or _stat.S_ISDIR(st_.st_mode) or _stat.S_ISLNK(st_.st_mode)):
                            continue
                        rel = full[len(rootb) + 1:]
                        parts = rel.split(b"/")
                        want = all(allowed_by(rules, b"/".join(parts[:j + 1])) for j in range(len(parts)))
                        got = full.lstrip(b"/") in have
                        ctx.count("multi.paths_kept" if got else "multi.paths_excluded")
                        prefixes = [b"/".join(parts[:j + 1]).decode("utf-8", "surrogateescape") for j in range(len(parts))]
                        if all(q in verdicts for q in prefixes):
                            want_model = all(verdicts[q] for q in prefixes)
                            ctx.count("multi.model_verdicts")
                            if want_model != got and want == got:
                                ctx.violation("multi-item-model", "correspondence filter-model no longer checks: items %s, item %d with rules %r: %r is %s the "
                                              "backup, the filter model says %s" % (state, i, picks[i][0], rel.decode("utf-8", "replace"),
                                                                                    "in" if got else "missing from", "allowed" if want_model else "denied"),
                                              {"items": state, "filters": [f for f, _ in picks], "item": i, "path": rel.decode("utf-8", "replace")}, failing_input=False)
                                return
                        if want != got:
                            ctx.violation("multi-item", "items %s, item %d with rules %r: %r is %s the backup, but %s" % (
                                state, i, picks[i][0], rel.decode("utf-8", "replace"), "in" if got else "missing from",
                                "some prefix of it is denied by the item's first matching rule" if got else "every prefix of it is allowed by the item's own rules"),
                                {"items": state, "filters": [f for f, _ in picks], "item": i, "path": rel.decode("utf-8", "replace")})
                            return


def replay(ctx, doc):
    from vlib import impl, model
    c = sexp.loads(doc.get("case") or doc.get("first_differing_case"))
    r = impl.run_lines([c])[0]
    m = model.run_driver([c])[0]
    print("implementation:", r)
    print("model:         ", m)
    if r != m:
        ctx.violation("replay", "model and implementation differ", {"case": sexp.dumps(c)}, failing_input=False)
    return 0
