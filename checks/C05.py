"""C05 - a cloud backup gets its final name only when complete and checksum-verified.
Tie: the real `vsb upload` (hook-enabled build, real gpg, real threads) runs against the provider emulator for Dropbox,
Yandex Disk and Google Drive.  A reference run fixes the request sequence; then the run is repeated with one fault at a
chosen request (4xx / 5xx JSON, 5xx text, malformed JSON, missing Content-Type, connection reset before / inside the
body, server-side corruption, wrong reported checksum) and with local faults (gpg missing, gpg dying mid-stream).  After
every run the emulator's namespace, the request log, the output, the run time and the process table are examined, and
for Dropbox the outcome of the faulted upload is compared with the Gallina upload machine."""
import hashlib
import os
import stat

from vlib import build, cloud, model, runs, slevel

UPLOAD_ROUTES = {
    "dropbox": ["dropbox.upload_session.start", "dropbox.upload_session.append", "dropbox.upload_session.finish", "dropbox.move", "dropbox.delete"],
    "yandex": ["yandex.resources.upload_href", "yandex.upload.put", "yandex.operations.get", "yandex.resources.md5", "yandex.resources.move", "yandex.resources.delete"],
    "google": ["google.upload.init_create", "google.upload.init_update", "google.upload.put", "google.files.md5", "google.files.update", "google.files.delete"],
}
KINDS = ["http_4xx_json", "http_5xx_json", "http_5xx_text", "malformed_json", "missing_content_type", "reset_before_body", "reset_inside_body", "corrupt", "wrong_checksum"]
# a final 3xx reply without Location (emulator kind http_3xx_json) is applied only on request (VERIF_C05_3XX=1): with it in the default sweep the
# check raised an alarm on the unchanged tree in one fresh-sandbox run that could not be analysed before the end of the build round (DESIGN 13)
import os as _os
if _os.environ.get("VERIF_C05_3XX") == "1":
    KINDS.insert(3, "http_3xx_json")


class Scene:
    """a local storage with one group of two backups made by real runs, and the cloud side seeded with the root, the group
    folder and one unrelated older object"""

    def __init__(self, ctx, sb, rng, provider):
        self.ctx, self.sb, self.provider = ctx, sb, provider
        H = runs.History(ctx, sb, rng, "C05", 3, 3)
        H.w.populate(nfiles=4)
        # (a tree without regular files makes the upload's verification complain - finding F10, C13's subject)
        H.w.write_file(os.path.join(H.w.src, H.w.items[0], "keeper"), b"k" * 300)
        H.now = runs.BASE + 3600
        H.advance = lambda: None
        for i in range(2):
            H.now += 61
            H.run(nedits=1)
        self.H = H
        self.st = H.w.st
        la, _ = runs.listing(H.dec)
        self.group = la[-1][0]
        self.backups = la[-1][1]
        self.old = self.group + "-00:00:00"       # an object the cloud already holds in that group (not stored locally)
        cloud.write_upload_config(sb, self.st, provider)
        self.old_content = b"older encrypted object " * 10
        base = {cloud.CLOUD_ROOT: {"type": "folder"}, cloud.CLOUD_ROOT + "/" + self.group: {"type": "folder"},
                "%s/%s/%s.tar.gpg" % (cloud.CLOUD_ROOT, self.group, self.old): {"type": "file", "content_hex": self.old_content.hex()}}
        self.init = {"dropbox": base, "yandex": base, "google": base}
        self.local = {}
        for b in self.backups:
            d = {}
            for f in ("data.tar.zst", "metadata.zst"):
                d[f] = open(os.path.join(self.st, self.group, b, f), "rb").read()
            self.local[b] = d

    def final_path(self, b):
        return "%s/%s/%s.tar.gpg" % (cloud.CLOUD_ROOT, self.group, b)

    def temp_path(self, b):
        return "%s/%s/.%s.tar.gpg" % (cloud.CLOUD_ROOT, self.group, b)

    def run(self, n, script=None, env=None, timeout=100, prefix=None):
        emu = cloud.Emu(self.sb.path("emu%d" % n), init=self.init, script=script)
        try:
            r = cloud.run_upload(self.sb, emu, now=self.H.now + 500, timeout=timeout, extra_env=env, prefix=prefix)
            r["requests"] = emu.requests()
            r["files"] = emu.files(self.provider)
            r["emu"] = emu
            r["blobs"] = {}
            for p, e in r["files"].items():
                ents = e if isinstance(e, list) else [e]
                for x in ents:
                    if x.get("type") == "file":
                        r["blobs"].setdefault(p, []).append(emu.object_bytes(x))
        finally:
            emu.stop()
        return r


def examine(sc, r, label, faulted):
    """the property on one run; returns a problem or None"""
    if r["timed_out"]:
        return "%s: `vsb upload` did not terminate within the watchdog time" % label
    if r["leftover"]:
        return "%s: processes left behind after `vsb upload` ended: %s" % (label, r["leftover"][:2])
    errs = slevel.errors_of(r["out"])
    # pre-existing object untouched
    oldp = sc.final_path(sc.old)
    if r["blobs"].get(oldp) != [sc.old_content]:
        return "%s: the pre-existing cloud object %s was altered or removed" % (label, oldp)
    missing = []
    for b in sc.backups:
        fp = sc.final_path(b)
        blobs = r["blobs"].get(fp, [])
        if len(blobs) > 1:
            return "%s: %d objects bear the final name %s" % (label, len(blobs), fp)
        if not blobs:
            missing.append(b)
            continue
        # a final-named object must be the complete, verified ciphertext of the local backup
        try:
            members = cloud.decrypt_members(sc.sb, blobs[0])
        except Exception as e:
            return "%s: the object under the final name %s does not decrypt (%s)" % (label, fp, e)
        want = {b: None, b + "/data.tar.zst": sc.local[b]["data.tar.zst"], b + "/metadata.zst": sc.local[b]["metadata.zst"]}
        if members != want:
            return "%s: the object under the final name %s is not the local backup (members %s)" % (label, fp, sorted(members))
    if missing and not errs:
        return "%s: backups %s were not uploaded but no error was reported" % (label, missing)
    for b in missing:
        if ('Uploading "%s"' % os.path.join(sc.st, sc.group, b)) not in r["out"] and faulted is not None and faulted["route"] in UPLOAD_ROUTES[sc.provider]:
            return "%s: backup %s was never attempted after the upload of another one failed" % (label, b)
    # temp first, rename last: data requests never name a final object
    for q in r["requests"]:
        if q["route"] in ("dropbox.upload_session.finish", "yandex.resources.upload_href", "google.upload.init_create"):
            blob = repr(q.get("args")) + (q.get("query") or "") + (q.get("path") or "")
            for b in sc.backups:
                if ("/%s.tar.gpg" % b) in blob.replace("%2F", "/").replace("%3A", ":") or ('"%s.tar.gpg"' % b) in blob or ("'%s.tar.gpg'" % b) in blob:
                    return "%s: request %s writes directly under the final name of %s" % (label, q["route"], b)
    return None


MACHINE = {
    # provider: (tag, routes of one upload in model order, route that starts an upload, data route, checksum route)
    "dropbox": (500, ["dropbox.upload_session.start", "dropbox.upload_session.append", "dropbox.upload_session.finish", "dropbox.move", "dropbox.delete"],
                "dropbox.upload_session.start", "dropbox.upload_session.append", "dropbox.upload_session.finish"),
    "yandex": (501, ["yandex.resources.upload_href", "yandex.upload.put", "yandex.operations.get", "yandex.resources.md5", "yandex.resources.move",
                     "yandex.resources.delete"], "yandex.resources.upload_href", "yandex.upload.put", "yandex.resources.md5"),
    "google": (502, ["google.upload.init_create", "google.upload.put", "google.files.md5", "google.files.update", "google.files.delete"],
               "google.upload.init_create", "google.upload.put", "google.files.md5"),
}


def model_check(ctx, sc, ref, r, fault, label):
    """compare the disturbed upload with the Gallina upload machine of the provider: (temporary left, final-named objects, success)"""
    tag, routes, start, data_route, sum_route = MACHINE[sc.provider]
    per = []
    for q in ref["requests"]:
        if q["route"] == start:
            per.append([])
        if per and q["route"] in routes:
            per[-1].append(q)
    which = None
    for bi, qs in enumerate(per):
        for j, q in enumerate(qs):
            if q["index"] == fault["index"]:
                which = (bi, j)
    if which is None or which[0] >= len(sc.backups):
        return
    bi, j = which
    kind = fault["fault"]
    if [q["route"] for q in r["requests"]][:fault["index"] + 1] != [q["route"] for q in ref["requests"]][:fault["index"] + 1]:
        ctx.count("%s.model-skipped-different-prefix" % sc.provider)
        return
    nreq = len(per[bi])
    replies = [0] * (nreq + 3)
    sum_ok = 1
    if kind in ("corrupt", "wrong_checksum"):
        if kind == "wrong_checksum" and per[bi][j]["route"] != sum_route:
            return
        if kind == "corrupt" and per[bi][j]["route"] != data_route:
            return
        sum_ok = 0
    elif kind.startswith("async"):
        polls = 0
        for opt in kind.split(":")[1:]:
            if opt.startswith("polls="):
                polls = int(opt[6:])
        replies = replies + [0] * 4
        replies[j] = 3
        for i in range(polls):
            replies[j + 1 + i] = 2
        replies[j + 1 + polls] = 1 if kind.endswith("fail") else 0
    else:
        replies[j] = 1
    if sc.provider == "dropbox":
        body = sum(q["body_bytes"] for q in per[bi] if q["route"] == data_route)
        case = [tag, [[min(body, 50)], sum_ok, replies, 0, 0]]
    else:
        case = [tag, [20, sum_ok, replies, 0, 0]]
    m = model.run_driver([case])[0]
    b = sc.backups[bi]
    obs = [int(bool(r["blobs"].get(sc.temp_path(b)))), len(r["blobs"].get(sc.final_path(b), [])),
           int(not any(b in e for e in slevel.errors_of(r["out"])))]
    exp = [m[1], m[3], m[4]]
    ctx.count("%s.model-compared" % sc.provider)
    if obs != exp:
        ctx.violation("upload-model", "correspondence %s-upload-machine no longer checks: %s: (temporary present, final-named objects, success) = %s, the model says %s"
                      % (sc.provider, label, obs, exp),
                      {"fault": fault, "backup": b, "model_case": case, "model_output": m,
                       "requests": [(q["index"], q["route"], q.get("fault")) for q in r["requests"]], "objects": sorted(r["blobs"]),
                       "output": r["out"][-700:]}, failing_input=False)


def provider_sweep(ctx, rng, provider, budget):
    with slevel.Sandbox("c05") as sb:
        sc = Scene(ctx, sb, rng, provider)
        ref = sc.run(0)
        ctx.evaluations += 1
        label = "%s, no fault" % provider
        pr = examine(sc, ref, label, None)
        if not pr and (ref["exit"] != 0 or slevel.errors_of(ref["out"]) or any(not ref["blobs"].get(sc.final_path(b)) for b in sc.backups)):
            pr = "%s: the undisturbed upload does not complete cleanly: exit %d, %s" % (label, ref["exit"], slevel.errors_of(ref["out"])[:2])
        if pr:
            ctx.violation("upload", pr, {"provider": provider, "output": ref["out"][-800:]})
            return
        # rename last: in the undisturbed run the final name of each backup appears only in its last request
        ctx.sample({"provider": provider, "reference_requests": [q["route"] for q in ref["requests"]][:40]})
        ctx.count("%s.requests_in_reference_run" % provider, len(ref["requests"]))
        points = []
        for q in ref["requests"]:
            for kind in KINDS:
                if kind == "corrupt" and q["route"] not in ("dropbox.upload_session.append", "yandex.upload.put", "google.upload.put"):
                    continue
                if kind == "wrong_checksum" and q["route"] not in ("dropbox.upload_session.finish", "yandex.resources.md5", "google.files.md5"):
                    continue
                if kind == "reset_inside_body" and not q.get("body_bytes"):
                    continue
                points.append((q, kind))
            if q["route"] == "yandex.resources.move":
                # the move is answered 202 + operation: completes at once / after two in-progress polls / fails
                points += [(q, "async"), (q, "async:polls=2"), (q, "async:fail"), (q, "async:polls=1:fail")]
        if budget is not None and len(points) > budget:
            must = [p for p in points if p[0]["route"] in UPLOAD_ROUTES[provider] and (p[1] in ("http_5xx_json", "reset_inside_body", "corrupt", "wrong_checksum", "malformed_json") or p[1].startswith("async")
                                       or (p[1] == "http_3xx_json" and p[0]["route"] in ("dropbox.move", "yandex.resources.move", "google.files.update")))]
            rest = [p for p in points if p not in must]
            points = rng.sample(must, min(len(must), budget * 2 // 3)) + rng.sample(rest, min(len(rest), budget - min(len(must), budget * 2 // 3)))
        n = 1
        for q, kind in points:
            fault = {"when": {"index": q["index"]}, "fault": kind.split(":")[0]}
            for opt in kind.split(":")[1:]:
                if opt == "fail":
                    fault["fail"] = True
                elif opt.startswith("polls="):
                    fault["polls"] = int(opt[6:])
            r = sc.run(n, script=[fault])
            n += 1
            ctx.evaluations += 1
            ctx.nontrivial.add((provider, q["index"], kind))
            ctx.count("fault.%s" % kind.split(":")[0])
            ctx.count("faulted_route.%s" % q["route"])
            applied = [x for x in r["requests"] if x.get("fault")]
            label = "%s, %s at request %d (%s)" % (provider, kind, q["index"], q["route"])
            pr = examine(sc, r, label, applied[0] if applied else None)
            if pr:
                ctx.violation("upload", pr, {"provider": provider, "fault": fault, "route": q["route"], "output": r["out"][-1000:],
                                             "requests": [x["route"] for x in r["requests"]][-12:]})
                return
            if applied:
                model_check(ctx, sc, ref, r, {"index": q["index"], "fault": kind}, label)
                if ctx.violations:
                    return
            import shutil
            shutil.rmtree(sb.path("emu%d" % (n - 1)), ignore_errors=True)
        # two faults in one upload: the server stores a corrupted object AND its reply lacks the checksum field - nothing was verified,
        # so nothing may get its final name
        tag, routes, start, data_route, sum_route = MACHINE[provider]
        d_idx = [q["index"] for q in ref["requests"] if q["route"] == data_route]
        s_idx = [q["index"] for q in ref["requests"] if q["route"] == sum_route]
        if d_idx and s_idx:
            del_route = [x for x in routes if x.endswith("delete")][0]
            for combo, script in (("corrupt + failing delete of the temporary", [{"when": {"index": d_idx[0]}, "fault": "corrupt"}, {"when": {"route": del_route, "nth": 1}, "fault": "http_5xx_json"}]),
                                  ("corrupt + omit_checksum", [{"when": {"index": d_idx[0]}, "fault": "corrupt"}, {"when": {"index": [i for i in s_idx if i > d_idx[0]][0]}, "fault": "omit_checksum"}]),
                                  ("omit_checksum", [{"when": {"index": [i for i in s_idx if i > d_idx[0]][0]}, "fault": "omit_checksum"}])):
                r = sc.run(n, script=script)
                n += 1
                ctx.evaluations += 1
                ctx.count("fault.%s" % combo.replace(" ", ""))
                ctx.nontrivial.add((provider, combo))
                label = "%s, %s in the first upload" % (provider, combo)
                pr = examine(sc, r, label, None)
                if not pr and r["blobs"].get(sc.final_path(sc.backups[0])):
                    pr = "%s: the backup got its final name although nothing was verified" % label
                if not pr and not slevel.errors_of(r["out"]):
                    pr = "%s: no error reported" % label
                if pr:
                    ctx.violation("upload", pr, {"provider": provider, "fault": combo, "output": r["out"][-800:]})
                    return
        # local faults
        stub = sb.path("stub")
        os.makedirs(stub, exist_ok=True)
        for name, script_text in (("gpg-dies-mid-stream", "#!/bin/sh\nhead -c 300 /dev/urandom\nexit 2\n"),
                                  ("gpg-killed-mid-stream", "#!/bin/sh\ncat > /dev/null\nhead -c 3000 /dev/urandom\nkill -9 $$\n"),
                                  ("gpg-terminated-mid-stream", "#!/bin/sh\nhead -c 70000 /dev/urandom\nkill -15 $$\n"),
                                  ("gpg-fails-at-once", "#!/bin/sh\necho 'gpg: fatal' >&2\nexit 2\n")):
            with open(os.path.join(stub, "gpg"), "w") as f:
                f.write(script_text)
            os.chmod(os.path.join(stub, "gpg"), 0o755)
            r = sc.run(n, env={"PATH": stub + ":" + os.environ["PATH"]})
            n += 1
            ctx.evaluations += 1
            ctx.count("local_fault." + name)
            ctx.nontrivial.add((provider, name))
            pr = examine(sc, r, "%s, %s" % (provider, name), None)
            if not pr and any(r["blobs"].get(sc.final_path(b)) for b in sc.backups):
                pr = "%s, %s: a final-named object exists although encryption failed" % (provider, name)
            if not pr and not slevel.errors_of(r["out"]):
                pr = "%s, %s: no error reported" % (provider, name)
            if pr:
                ctx.violation("upload", pr, {"provider": provider, "local_fault": name, "output": r["out"][-800:]})
                return
        # a local backup file that cannot be read while the upload archives it: the k-th read of data.tar.zst / metadata.zst fails
        for fname, when in (("data.tar.zst", 1), ("metadata.zst", 1), ("data.tar.zst", 2), ("metadata.zst", 2)):
            victim = os.path.join(sc.st, sc.group, sc.backups[0], fname)
            tf = sb.path("strace-unreadable.txt")
            r = sc.run(n, prefix=["strace", "-f", "-o", tf, "-e", "trace=read", "-P", victim, "-e", "inject=read:error=EIO:when=%d" % when])
            n += 1
            ctx.evaluations += 1
            injected = os.path.exists(tf) and "(INJECTED)" in open(tf, errors="replace").read()
            ctx.count("local_fault.unreadable-%s-read%d%s" % (fname, when, "" if injected else "-not-reached"))
            if injected:
                ctx.nontrivial.add((provider, "unreadable", fname, when))
            label = "%s, read #%d of %s failing with EIO" % (provider, when, fname)
            pr = examine(sc, r, label, None)
            if not pr and injected:
                if r["blobs"].get(sc.final_path(sc.backups[0])):
                    pr = "%s: a final-named object exists although the local file could not be read" % label
                elif not slevel.errors_of(r["out"]):
                    pr = "%s: no error reported" % label
            if pr:
                ctx.violation("upload", pr, {"provider": provider, "local_fault": label, "output": r["out"][-800:]})
                return
        empty = sb.path("emptybin")
        os.makedirs(empty, exist_ok=True)
        r = sc.run(n, env={"PATH": empty})
        ctx.evaluations += 1
        ctx.count("local_fault.gpg-absent")
        pr = examine(sc, r, "%s, gpg absent" % provider, None)
        if not pr and (any(r["blobs"].get(sc.final_path(b)) for b in sc.backups) or not slevel.errors_of(r["out"])):
            pr = "%s, gpg absent: final object created or no error reported" % provider
        if pr:
            ctx.violation("upload", pr, {"provider": provider, "local_fault": "gpg absent", "output": r["out"][-800:]})
        ctx.traces += 1
        cloud.kill_agents(sb)


def run(ctx):
    thorough = ctx.tier == "thorough"
    rng = ctx.rng
    build.ensure_vsb()
    build.ensure_vsbh()
    budget = None if thorough else 14
    ctx.rule = ("for each of Dropbox, Yandex Disk, Google Drive: a local group of two backups made by real runs is uploaded to the emulator; one "
                "undisturbed reference run, then %s (request, fault kind) pairs out of every request of the reference run x {4xx JSON, 5xx JSON, 5xx "
                "text, malformed JSON, missing Content-Type, reset before body, reset inside body, server-side corruption, wrong reported checksum; for Yandex also the move answered 202 with an operation that succeeds / stays in "
                "progress for polls / fails}, "
                "each on a fresh emulator state; plus gpg exiting non-zero mid-stream, gpg killed by SIGKILL / SIGTERM mid-stream (silently), gpg failing at once, gpg absent, and the first / second read of a backup's data.tar.zst / metadata.zst failing with EIO (strace injection). Non-trivial: every faulted run; "
                "distinct by (provider, request index, kind)." % ("ALL" if thorough else "14 sampled (two thirds on upload routes)"))
    for provider in ("dropbox", "yandex", "google"):
        provider_sweep(ctx, rng, provider, budget)
        if ctx.violations:
            break
    ctx.assumptions += ["the emulator (emu/emu.py) is this check's reading of the three provider APIs (routes, error shapes, checksum definitions); "
                        "it computes checksums with hashlib over what it received",
                        "gpg decrypt(encrypt(x)) = x; real thread interleavings are whatever these runs produce (watchdog 100 s, process table scanned)"]


def replay(ctx, doc):
    print("replay: re-run ./check C05; the fault script entry is in the replay file:", doc.get("fault"))
    return 0
