"""C20 - only a well-formed configuration is ever acted upon.
Tie: the real Config::load (serde_yaml + validator + vsb's own checks) vs the Gallina acceptance model on every
single-fault mutation of valid documents (delete / duplicate / retype / zero / empty each key, unknown key at each
level, perturbed paths / durations / rules), random double faults and whole-document oddities; the accepted
configuration (names, normalised paths, limits, rule counts, duration) is compared, not only the verdict.
The property's own list of malformations is evaluated on the implementation's verdict by an independent classifier."""
import os

from vlib import sexp

HOME = "/home/u"

# leaf vocabulary: name -> (yaml spelling, text, kind); kind: 'null' | 'bool' | ('int', z) | 'float' | 'str'
V = {
    'n': ("n", "n", "str"), 'm': ("m", "m", "str"), 'int': ("123", "123", ("int", 123)), 'qint': ("'123'", "123", "str"),
    'null': ("~", "~", "null"), 'nullw': ("null", "null", "null"), 'true': ("true", "true", "bool"), 'float': ("1.5", "1.5", "float"),
    'plus1': ("+1", "+1", ("int", 1)), 'hex': ("0x1F", "0x1F", ("int", 31)), 'empty': ("''", "", "str"),
    'abs': ("/st/a", "/st/a", "str"), 'abs2': ("/st/b", "/st/b", "str"), 'rel': ("rel/p", "rel/p", "str"), 'dd': ("/a/../b", "/a/../b", "str"),
    'messy': ("/a//b/./c/", "/a//b/./c/", "str"), 'tilde': ("~/x", "~/x", "str"), 'tildeu': ("~root/x", "~root/x", "str"),
    'tildeonly': ("'~'", "~", "str"), 'dot': ("/a/.", "/a/.", "str"), 'ddend': ("/a/..", "/a/..", "str"), 'dotrel': ("./a", "./a", "str"),
    'd7': ("7d", "7d", "str"), 'h24': ("24h", "24h", "str"), 'm1': ("1m", "1m", "str"), 'd0': ("0d", "0d", "str"), 'dx': ("7x", "7x", "str"),
    'd07': ("07d", "07d", "str"), 'dsp': ("'7d '", "7d ", "str"), 'dnone': ("d", "d", "str"), 'dneg': ("-7d", "-7d", "str"),
    'dbig': ("99999999999999999999d", "99999999999999999999d", "str"), 'dwrap': ("300000000000000d", "300000000000000d", "str"),
    'rule': ("'+ *.txt'", "+ *.txt", "str"), 'badrule': ("'bad rule'", "bad rule", "str"), 'badglob': ("'+ a**'", "+ a**", "str"),
    'badglob2': ("'- {a'", "- {a", "str"), 'rulenosp': ("'+a'", "+a", "str"), 'comment': ("'# only a comment'", "# only a comment", "str"),
    'oct': ("010", "010", "str"), 'big': ("18446744073709551616", "18446744073709551616", ("int", 18446744073709551616)),
    'neg': ("-1", "-1", ("int", -1)), 'zero': ("0", "0", ("int", 0)), 'one': ("1", "1", ("int", 1)), 'three': ("3", "3", ("int", 3)),
    'dropbox': ("dropbox", "dropbox", "str"), 's3': ("s3", "s3", "str"), 'ydisk': ("yandex-disk", "yandex-disk", "str"), 'gdrive': ("google-drive", "google-drive", "str"),
    'root': ("/", "/", "str"), 'cmd': ("'echo hi'", "echo hi", "str"),
}
BLOCKS = {
    'rules2': ["- *.o", "# keep the rest", "", "+ **"],
    'rulesbad': ["- *.o", "oops"],
    # malformed lines BELOW a catch-all rule: no path can ever reach them, yet the configuration is malformed
    'rulesbad2': ["+ keep.txt", "- **", "oops"],
    'rulesbad3': ["- **", "+ sub/[a-"],
    'rulesbad4': ["+ **", "-nospace"],
}


def L(k):
    return ("leaf", k)


def base(variant=0):
    item1 = ("map", [("path", L('abs2')), ("filter", L('rule') if variant == 0 else ("block", 'rules2')), ("before", L('cmd'))])
    item2 = ("map", [("path", L('abs')), ("after", L('cmd'))])
    prov = ("map", [("name", L(['dropbox', 'ydisk', 'gdrive'][variant % 3])), ("client_id", L('n')), ("client_secret", L('m')), ("refresh_token", L('n'))])
    spec1 = ("map", [("name", L('n')), ("path", L('abs')),
                     ("backup", ("map", [("items", ("seq", [item1, item2] if variant else [item1])), ("max_backup_groups", L('three')), ("max_backups_per_group", L('one'))])),
                     ("upload", ("map", [("provider", prov), ("path", L('abs')), ("max_backup_groups", L('one')), ("encryption_passphrase", L('m')),
                                         ("max_time_without_backups", L(['d7', 'h24', 'm1'][variant % 3]))]))])
    spec2 = ("map", [("name", L('m')), ("path", L('tilde'))])
    return ("map", [("backups", ("seq", [spec1, spec2])), ("prometheus_metrics", L('abs2'))])


def paths(t, pre=()):
    out = [pre]
    if t[0] == "map":
        for i, (k, v) in enumerate(t[1]):
            out += paths(v, pre + (i,))
    elif t[0] == "seq":
        for i, v in enumerate(t[1]):
            out += paths(v, pre + (i,))
    return out


def getp(t, p):
    for i in p:
        t = t[1][i][1] if t[0] == "map" else t[1][i]
    return t


def keyp(t, p):
    """key names along the path (None for sequence steps)"""
    ks = []
    for i in p:
        if t[0] == "map":
            ks.append(t[1][i][0])
            t = t[1][i][1]
        else:
            ks.append(None)
            t = t[1][i]
    return ks


def setp(t, p, nv):
    if not p:
        return nv
    t = (t[0], list(t[1]))
    i = p[0]
    if t[0] == "map":
        t[1][i] = (t[1][i][0], setp(t[1][i][1], p[1:], nv))
    else:
        t[1][i] = setp(t[1][i], p[1:], nv)
    return t


def emit(t, ind=0):
    sp = "  " * ind
    if t[0] == "leaf":
        return V[t[1]][0]
    if t[0] == "block":
        return "|\n" + "\n".join((sp + l) if l else "" for l in BLOCKS[t[1]])
    if t[0] == "map":
        if not t[1]:
            return "{}"
        out = ""
        for k, v in t[1]:
            if v[0] in ("leaf", "block") or not v[1]:
                out += "%s%s: %s\n" % (sp, k, emit(v, ind + 1))
            else:
                out += "%s%s:%s\n" % (sp, k, emit(v, ind + 1))
        return "\n" + out.rstrip("\n")
    if t[0] == "seq":
        if not t[1]:
            return "[]"
        out = ""
        for v in t[1]:
            if v[0] in ("leaf", "block") or not v[1]:
                out += "\n%s- %s" % (sp, emit(v, ind + 1))
            else:
                body = emit(v, ind + 1).lstrip("\n")
                lines = body.split("\n")
                out += "\n%s- " % sp + lines[0].strip() + "".join("\n" + l for l in lines[1:])
        return out


def wire(t):
    if t[0] == "leaf":
        y, txt, k = V[t[1]]
        kk = {"null": [0], "bool": [1], "float": [3], "str": [4]}.get(k) if not isinstance(k, tuple) else [2, sexp.Z(k[1])]
        return [0, list(txt.encode()), kk]
    if t[0] == "block":
        return [0, list(("\n".join(BLOCKS[t[1]]) + "\n").encode()), [4]]
    if t[0] == "seq":
        return [1, [wire(v) for v in t[1]]]
    return [2, [[list(k.encode()), wire(v)] for k, v in t[1]]]


def case_of(t, text=None):
    if t is None:
        return [2000, [[list(HOME.encode())], 0, list((text or "").encode()), []]]
    y = emit(t).lstrip("\n") + "\n"
    return [2000, [[list(HOME.encode())], 0, list((text if text is not None else y).encode()), [wire(t)]]]


# ---- the property's own list of malformations, decided on the tree (independent of the code) -------------------
KNOWN = {
    (): ["backups", "prometheus_metrics"],
    "spec": ["name", "path", "backup", "upload"],
    "backup": ["items", "max_backup_groups", "max_backups_per_group"],
    "item": ["path", "filter", "before", "after"],
    "upload": ["provider", "path", "max_backup_groups", "encryption_passphrase", "max_time_without_backups"],
    "provider": ["name", "client_id", "client_secret", "refresh_token"],
}
REQUIRED = {"spec": ["name", "path"], "backup": ["items", "max_backup_groups", "max_backups_per_group"], "item": ["path"],
            "upload": ["provider", "path", "max_backup_groups", "encryption_passphrase"],
            "provider": ["name", "client_id", "client_secret", "refresh_token"]}
BAD_PATH = {'rel', 'dd', 'ddend', 'dotrel', 'tildeu'}
BAD_DUR = {'d0', 'dx', 'd07', 'dsp', 'dnone', 'dneg', 'dbig', 'dwrap'}
BAD_RULE = {'badrule', 'badglob2', 'rulenosp'}   # ('+ a**' is a valid glob for globset: '**' next to a literal is accepted)


def malformations(t):
    """labels of malformations of the property's list present in the document (each decidable from the tree alone)"""
    out = []

    def leafname(v):
        return v[1] if v[0] == "leaf" else None

    def level(m, kind):
        if m[0] != "map":
            return
        keys = [k for k, _ in m[1]]
        for k in keys:
            if k not in KNOWN[kind]:
                out.append("unknown-key@%s" % (kind or "top"))
        for k in REQUIRED.get(kind, []):
            if k not in keys:
                out.append("missing-%s@%s" % (k, kind))
        d = dict(m[1])
        if kind == "spec":
            if leafname(d.get("name", ("x",))) == 'empty':
                out.append("empty-name")
            if leafname(d.get("path", ("x",))) == 'empty':
                out.append("empty-path")
            if leafname(d.get("path", ("x",))) in BAD_PATH:
                out.append("bad-storage-path")
            if "backup" in d:
                level(d["backup"], "backup")
            if "upload" in d:
                level(d["upload"], "upload")
        elif kind == "backup":
            for k in ("max_backup_groups", "max_backups_per_group"):
                if leafname(d.get(k, ("x",))) == 'zero':
                    out.append("zero-%s" % k)
            its = d.get("items")
            if its and its[0] == "seq":
                if not its[1]:
                    out.append("empty-items")
                for it in its[1]:
                    level(it, "item")
        elif kind == "item":
            if leafname(d.get("path", ("x",))) == 'empty':
                out.append("empty-item-path")
            f = d.get("filter")
            if f and (leafname(f) in BAD_RULE or (f[0] == "block" and f[1].startswith('rulesbad'))):
                out.append("bad-filter-rule")
        elif kind == "upload":
            if leafname(d.get("max_backup_groups", ("x",))) == 'zero':
                out.append("zero-upload-groups")
            if leafname(d.get("path", ("x",))) in BAD_PATH | {'tilde', 'tildeonly'}:
                out.append("bad-upload-path")
            if leafname(d.get("path", ("x",))) == 'empty':
                out.append("empty-upload-path")
            if leafname(d.get("encryption_passphrase", ("x",))) == 'empty':
                out.append("empty-passphrase")
            mt = d.get("max_time_without_backups")
            # a duration is a number followed by m / h / d: anything else - other spellings, other scalar types, a present but valueless key
            # (null) - is malformed
            if mt is not None and (mt[0] != "leaf" or leafname(mt) not in ('d7', 'h24', 'm1')):
                out.append("bad-duration")
            if "provider" in d:
                level(d["provider"], "provider")
        elif kind == "provider":
            for k in ("client_id", "client_secret", "refresh_token"):
                if leafname(d.get(k, ("x",))) == 'empty':
                    out.append("empty-credential")
        elif kind == ():
            if leafname(d.get("prometheus_metrics", ("x",))) in BAD_PATH:
                out.append("bad-metrics-path")
            if leafname(d.get("prometheus_metrics", ("x",))) == 'empty':
                out.append("empty-metrics-path")
            b = d.get("backups")
            if b and b[0] == "seq":
                names = []
                for s in b[1]:
                    level(s, "spec")
                    if s[0] == "map":
                        nm = dict(s[1]).get("name")
                        if nm and nm[0] == "leaf":
                            names.append(V[nm[1]][1])
                if len(names) != len(set(names)):
                    out.append("duplicate-backup-name")

    level(t, ())
    return out


def mutations(t):
    """every single-fault mutation of the property's list, at every position"""
    out = []
    for p in paths(t):
        node = getp(t, p)
        ks = keyp(t, p)
        key = ks[-1] if ks else None
        if node[0] == "map":
            for i in range(len(node[1])):
                out.append(("delete %s" % node[1][i][0], setp(t, p, ("map", node[1][:i] + node[1][i + 1:]))))
                out.append(("duplicate %s" % node[1][i][0], setp(t, p, ("map", node[1] + [node[1][i]]))))
            out.append(("unknown key", setp(t, p, ("map", node[1] + [("zzz", L('n'))]))))
            out.append(("unknown key first", setp(t, p, ("map", [("aaa", L('int'))] + node[1]))))
            for r in ('n', 'null', 'int'):
                out.append(("retype map", setp(t, p, L(r))))
            out.append(("retype map", setp(t, p, ("seq", []))))
        elif node[0] == "seq":
            out.append(("empty list", setp(t, p, ("seq", []))))
            out.append(("duplicate element", setp(t, p, ("seq", node[1] + node[1][:1]))))
            out.append(("drop element", setp(t, p, ("seq", node[1][1:]))))
            out.append(("retype list", setp(t, p, L('n'))))
            out.append(("retype list", setp(t, p, ("map", []))))
        else:
            for r in ('int', 'qint', 'null', 'nullw', 'true', 'float', 'empty', 'zero', 'neg', 'plus1', 'hex', 'oct', 'big', 'n'):
                out.append(("retype %s" % key, setp(t, p, L(r))))
            out.append(("retype leaf", setp(t, p, ("seq", [L('n')]))))
            out.append(("retype leaf", setp(t, p, ("map", [("x", L('n'))]))))
            if key == "path" or key == "prometheus_metrics":
                for r in ('rel', 'dd', 'messy', 'tilde', 'tildeu', 'tildeonly', 'dot', 'ddend', 'dotrel', 'root'):
                    out.append(("path %s" % r, setp(t, p, L(r))))
            if key == "max_time_without_backups":
                for r in ('d7', 'h24', 'm1') + tuple(sorted(BAD_DUR)):
                    out.append(("duration %s" % r, setp(t, p, L(r))))
            if key == "filter":
                for r in sorted(BAD_RULE) + ['comment', 'rule']:
                    out.append(("rule %s" % r, setp(t, p, L(r))))
                out.append(("rule block", setp(t, p, ("block", 'rules2'))))
                for bad in ('rulesbad', 'rulesbad2', 'rulesbad3', 'rulesbad4'):
                    out.append(("rule block bad", setp(t, p, ("block", bad))))
            if key == "name" and len(ks) >= 2 and ks[-2] == "provider":
                for r in ('s3', 'ydisk', 'gdrive', 'dropbox'):
                    out.append(("provider %s" % r, setp(t, p, L(r))))
            if key == "name" and len(ks) == 3:
                out.append(("duplicate name", setp(t, p, L('m' if V[node[1]][1] == 'n' else 'n'))))
    return out


def run(ctx):
    thorough = ctx.tier == "thorough"
    rng = ctx.rng
    ctx.rule = ("every single-fault mutation (delete / duplicate each key, unknown key at each level, retype each value to 14 scalar spellings "
                "and to a list / map, empty / duplicated / shortened lists, 10 path spellings at every path key, 11 durations, 8 filter specs, "
                "provider names, duplicate backup names) of %d valid base documents; %d random double faults; whole-document cases (empty, "
                "comment only, {}, backups: ~, second document, merge key). Non-trivial: the document differs from its base; distinct by text."
                % (3 if thorough else 2, 1500 if thorough else 300))
    cases = []
    meta = {}
    bases = [base(0), base(1)] + ([base(2)] if thorough else [])
    for b in bases:
        c = case_of(b)
        cases.append(c)
        meta[sexp.dumps(c)] = ("base", b)
        muts = mutations(b)
        for label, t in muts:
            c = case_of(t)
            k = sexp.dumps(c)
            if k not in meta:
                meta[k] = (label, t)
                cases.append(c)
                ctx.count("mutation." + label.split(" ")[0])
    for _ in range(1500 if thorough else 300):
        t = rng.choice(bases)
        for _ in range(2):
            t = rng.choice(mutations(t))[1]
        c = case_of(t)
        k = sexp.dumps(c)
        if k not in meta:
            meta[k] = ("double fault", t)
            cases.append(c)
    # whole-document oddities (tree given by hand)
    b0 = bases[0]
    whole = [
        (None, ""), (None, "# nothing here\n"), (None, "---\n"), (None, "~\n") ,
        (("map", []), "{}\n"),
        (("map", [("backups", L('null'))]), "backups: ~\n"),
        (("map", [("backups", ("seq", []))]), "backups: []\n"),
    ]
    for t, text in whole:
        if t is None and text == "~\n":
            continue
        c = case_of(t, text)
        meta[sexp.dumps(c)] = ("whole document", t)
        cases.append(c)

    def expected(c, m):
        return m

    def observed(c, r):
        return r

    def known_class(c, r):
        label, t = meta[sexp.dumps(c)]
        if t is None or t[0] != "map":
            return None
        bad = set(malformations(t))
        if r[0] == 1 and bad and bad <= {"unknown-key@provider"}:
            return "F4a"
        if r[0] == 1 and bad and bad <= {"empty-credential"}:
            return "F4b"
        if r[0] == 1 and bad and bad <= {"unknown-key@provider", "empty-credential"}:
            return "F4a+F4b"
        return None

    def prop_ok(c, r):
        label, t = meta[sexp.dumps(c)]
        text = bytes(c[1][2]).decode()
        if r[0] == 254:
            return False, "loading the configuration panics (mutation: %s):\n%s" % (label, text)
        if t is None or t[0] != "map":
            return True, ""
        bad = malformations(t)
        if r[0] == 1 and bad:
            return False, "a configuration with %s is accepted (mutation: %s):\n%s" % (", ".join(sorted(set(bad))), label, text)
        if r[0] == 1:
            # accepted paths are normalised
            ps = [s[1] for s in r[1]] + [u[0][1] for s in r[1] for u in [s[3]] if u] + [bytes(x) for x in []]
            ps += [m for m in r[2]]
            for p in ps:
                s = bytes(p).decode()
                if not s.startswith("/") or "//" in s or "/./" in s or (len(s) > 1 and s.endswith("/")) or "/../" in s or s.endswith("/..") or s.endswith("/.") or "~" in s:
                    return False, "accepted path %r is not normalised (mutation: %s)" % (s, label)
        return True, ""

    def describe(c):
        return {"document": bytes(c[1][2]).decode()[:400], "mutation": meta[sexp.dumps(c)][0]}

    env = {"HOME": HOME}
    mres, ires = ctx.correspond("config-load", cases, expected, observed, prop_ok,
                                nontrivial=lambda c, m: bytes(c[1][2]).hex() if meta[sexp.dumps(c)][0] != "base" else None,
                                describe=describe, known_class=known_class, env=env, shards=8)
    ctx.count("documents.accepted_by_both", sum(1 for m, r in zip(mres, ires) if m[0] == 1 and r[0] == 1))
    ctx.count("documents.rejected_by_both", sum(1 for m, r in zip(mres, ires) if m[0] == 0 and r[0] == 0))
    ctx.count("documents.impl_panics", sum(1 for r in ires if r[0] == 254))
    if not ctx.has_failing_input():
        from vlib import cfgrun
        cfgrun.run(ctx)
    ctx.notes.append("'before any storage or network access and without side effects': vlib/cfgrun.py runs the real `vsb backup|upload|restore` under strace on "
                     "a valid sandboxed document with one fault of the property's list at a time: nothing executed, no inet connect, no path at or below the "
                     "storage / items / restore target touched, sandbox unchanged")
    ctx.assumptions += ["serde_yaml's parsing and core-schema resolution of the scalar spellings used by the generator (the tree handed to the "
                        "model is the generator's own, with the kind each spelling resolves to)",
                        "validator derive semantics (length / range / nested)"]


def replay(ctx, doc):
    print("replay: re-run ./check C20 quick (documents are regenerated deterministically from the seed); case:", doc.get("case_readable"))
    return 0
