"""C13 - verification and staleness checks flag exactly the unhealthy storages.
Tie: storages written by the independent encoder (healthy histories and every manifest-level corruption of the
property's list) are listed + verified through the real public Storage API and by the Gallina model (verify), whose
equivalence with the declarative Healthy predicate is the theorem; the age check is run through the real
check_backups under a fake clock around the boundary."""
import calendar
import shutil
import os
import time
from concurrent.futures import ThreadPoolExecutor

from vlib import sexp, slevel, model, impl, build, aux

BASE_DAY = calendar.timegm((2023, 11, 1, 0, 0, 0))
NOW = calendar.timegm((2023, 12, 20, 12, 0, 0))


def gname(day):
    return time.strftime("%Y.%m.%d", time.gmtime(BASE_DAY + day * 86400))


def bname(day, t):
    return "%s-%02d:%02d:%02d" % (gname(day), t // 3600, (t // 60) % 60, t % 60)


def hhex(h):
    return slevel.sha512(b"content-%d" % h)


def gen_healthy(rng):
    """abstract storage: list of groups {day, entries:[{kind:'final', day, time, has_data, has_meta, manifest|None, ...}]}"""
    groups = []
    day = rng.randrange(0, 5)
    nid = [1]
    for _ in range(rng.randrange(1, 4)):
        known = []
        ents = []
        t = rng.randrange(0, 3600)
        for bi in range(rng.randrange(0 if rng.random() < 0.15 else 1, 4)):
            lines = []
            for _ in range(rng.randrange(1, 5)):
                r = rng.random()
                if r < 0.45 or not known:
                    h = nid[0]
                    nid[0] += 1
                    lines.append([1, h, rng.choice([1, 3, 4096, 70000])])
                    known.append(h)
                elif r < 0.8:
                    lines.append([0, rng.choice(known), rng.choice([1, 3, 9])])
                else:
                    lines.append([0, 0, 0])        # empty file: extern with size 0
            bday = day + (bi and rng.choice([0, 0, 1]))
            ents.append({"kind": "final", "day": bday if bi else day, "time": t, "has_data": True, "has_meta": True, "manifest": lines})
            t += rng.randrange(1, 4000)
            if t >= 86400:
                t = 86399
        groups.append({"day": day, "entries": ents, "extra": []})
        day += rng.randrange(1, 12)
    return {"groups": groups, "root_extra": []}


def corrupt(rng, st):
    import copy
    s = copy.deepcopy(st)
    gs = [g for g in s["groups"]]
    g = rng.choice(gs)
    finals = [e for e in g["entries"] if e["kind"] == "final"]
    k = rng.randrange(28)
    if k == 0 and finals:
        rng.choice(finals)["has_data"] = False
        return "data file deleted", s
    if k == 1 and finals:
        rng.choice(finals)["has_meta"] = False
        return "metadata file deleted", s
    if k == 2 and finals:
        g["entries"].remove(finals[0])
        return "first backup of a group deleted", s
    if k == 3 and finals:
        g["entries"].remove(rng.choice(finals))
        return "a backup deleted", s
    if k == 4 and finals:
        b = rng.choice(finals)
        ext = [l for l in b["manifest"] if not l[0] and l[2]]
        if ext:
            rng.choice(ext)[1] = 99999
            return "extern hash edited", s
    if k == 5 and finals:
        b = rng.choice(finals)
        u = [l for l in b["manifest"] if l[0]]
        if u:
            rng.choice(u)[0] = 0
            return "unique turned into extern", s
    if k == 6 and finals:
        b = rng.choice(finals)
        b["manifest"].reverse()
        return "lines reordered", s
    if k == 7 and finals:
        rng.choice(finals)["manifest"] = []
        return "all lines removed", s
    if k == 8 and finals:
        rng.choice(finals)["garbage"] = True
        return "metadata is garbage", s
    if k == 9 and finals:
        rng.choice(finals)["badline"] = rng.choice(["oops", "unique zz 1:2:3 4 /p", "extern ab 1:2 4 /p", "unique ab 1:2:3 x /p", "unique ab 1:2:3 4"])
        return "unparsable line", s
    if k == 10:
        s["root_extra"].append({"name": rng.choice(["notes.txt", "lost+found", "2023.11", "2023.11.1", "x2023.11.01"]), "dir": rng.random() < 0.5, "junk": True})
        return "stray visible entry at root", s
    if k == 11:
        s["root_extra"].append({"name": rng.choice([".DS_Store", ".hidden", ".2023.11.01"]), "dir": rng.random() < 0.3, "junk": False})
        return "stray hidden entry at root", s
    if k == 12:
        g["extra"].append({"name": rng.choice(["notes.txt", "foo", "2023.11.01", "2023.11.01-10:00", "2023.11.01-10:00:00.tar.gpg"]), "dir": rng.random() < 0.5, "kind": "junk"})
        return "stray visible entry in a group", s
    if k == 13:
        g["extra"].append({"name": rng.choice([".DS_Store", ".x"]), "dir": False, "kind": "hidden"})
        return "stray hidden entry in a group", s
    if k == 14:
        # a killed run leaves its temporary behind; it may have started on a later day than the group
        g["extra"].append({"name": "." + bname(g["day"] + rng.choice([0, 0, 1, 2, 9]), rng.randrange(86400)), "dir": True, "kind": "temp"})
        return "abandoned temporary backup", s
    if k == 15 and finals:
        b = rng.choice(finals)
        b["day"] += rng.choice([1, -1, 3])
        if b["day"] < 0:
            b["day"] = 40
        return "backup renamed to another date", s
    if k == 16:
        s["groups"].append({"day": max(x["day"] for x in s["groups"]) + 2, "entries": [], "extra": []})
        return "empty group added", s
    if k == 17:
        g["extra"].append({"name": bname(g["day"], 86000), "dir": False, "kind": "junk"})
        return "file with a backup name", s
    if k == 18 and finals:
        b = rng.choice(finals)
        b["manifest"].append([0, 77777, 5])
        return "line added", s
    if k == 19 and finals:
        b = rng.choice(finals)
        if len(b["manifest"]) > 1:
            del b["manifest"][rng.randrange(len(b["manifest"]))]
            return "line removed", s
    if k == 20 and finals:
        rng.choice(finals)["trunc"] = True
        return "metadata truncated", s
    if k == 21:
        g["extra"].append({"name": "." + bname(g["day"], 100), "dir": False, "kind": "junk-hidden-file-with-temp-name"})
        return "hidden file with a temporary backup name", s
    if k in (22, 23) and finals:
        # the compressed manifest is a complete, decodable frame followed by bytes that are not a frame: every record can still be read,
        # then the stream breaks
        rng.choice(finals)["tail_garbage"] = True
        return "garbage after the manifest's last frame", s
    if k in (24, 25) and finals:
        # a complete copy of a backup under its name plus a suffix (a renamed / copied directory): an unexpected entry, however valid inside
        b = rng.choice(finals)
        g["extra"].append({"name": bname(b["day"], b["time"]) + rng.choice([".old", "~", " (copy)", "-broken", ".1"]), "dir": True, "kind": "junk",
                           "copy_of": b})
        return "suffixed copy of a backup", s
    if k == 26:
        # a directory in the root named like a group, but in decimal digits that are not ASCII (Arabic-Indic, fullwidth): not a name vsb gives
        s["root_extra"].append({"name": rng.choice(["\u0662\u0660\u0662\u0663.\u0661\u0661.\u0660\u0661", "\uff12\uff10\uff12\uff13.11.01", "2023.11.0\u0661"]), "dir": True, "junk": True})
        return "group-like directory in non-ASCII digits at root", s
    if k == 27:
        g["extra"].append({"name": bname(g["day"], 36000)[:-2] + rng.choice(["\u0660\u0660", "\uff10\uff10", "0\u0969"]), "dir": True, "kind": "junk"})
        return "backup-like directory in non-ASCII digits in a group", s
    return "none", s


def real_spec(st):
    groups = []
    for g in st["groups"]:
        bs = []
        junk = []
        for e in g["entries"]:
            man = []
            for (u, h, sz) in e["manifest"]:
                man.append({"unique": bool(u), "hash": hhex(h), "fp": [1, 2, 3], "size": sz, "path_hex": b"/p/f".hex()})
            if e.get("badline"):
                man.insert(len(man) // 2, {"raw_hex": e["badline"].encode().hex()})
            b = {"name": bname(e["day"], e["time"]), "manifest": man, "entries": [], "omit_meta": not e["has_meta"], "omit_data": not e["has_data"]}
            if e.get("garbage"):
                b["meta_garbage"] = True
                b["manifest_hex"] = b"this is not zstd".hex()
            if e.get("trunc"):
                b["meta_truncate"] = 9
            if e.get("tail_garbage"):
                b["meta_append_hex"] = (b"\x00\x01garbage after the frame" * 8).hex()
            bs.append(b)
        for x in g["extra"]:
            if x.get("copy_of"):
                e = x["copy_of"]
                bs.append({"name": x["name"], "manifest": [{"unique": bool(u), "hash": hhex(h), "fp": [1, 2, 3], "size": sz, "path_hex": b"/p/f".hex()} for (u, h, sz) in e["manifest"]],
                           "entries": []})
            else:
                junk.append({"name": x["name"], "dir": x["dir"]})
        groups.append({"name": gname(g["day"]), "backups": bs, "junk": junk})
    return {"groups": groups, "junk": [{"name": x["name"], "dir": x["dir"]} for x in st["root_extra"]]}


def model_storage(st):
    """the abstract storage in name order, as the listing sees it"""
    root = []
    for g in st["groups"]:
        ents = []
        for e in g["entries"]:
            man = e["manifest"]
            mm = [[int(u), h, sz] for (u, h, sz) in man]
            unreadable = e.get("garbage") or e.get("badline") or e.get("trunc") or e.get("tail_garbage")
            ents.append((bname(e["day"], e["time"]), [0, [e["day"], e["time"], int(e["has_data"]), int(e["has_meta"]), [] if unreadable else [mm]]]))
        for x in g["extra"]:
            kind = x["kind"]
            if kind == "temp":
                ents.append((x["name"], [1]))
            elif kind == "hidden":
                ents.append((x["name"], [2]))
            elif kind == "junk-hidden-file-with-temp-name":
                ents.append((x["name"], [3]))
            else:
                ents.append((x["name"], [3]))
        ents.sort(key=lambda t: t[0].encode())
        root.append((gname(g["day"]), [0, [g["day"], [e for _, e in ents]]]))
    for x in st["root_extra"]:
        root.append((x["name"], [2] if x["junk"] else [1]))
    root.sort(key=lambda t: t[0].encode())
    return [e for _, e in root]


def run(ctx):
    thorough = ctx.tier == "thorough"
    rng = ctx.rng
    build.ensure_vsbh()
    n = 3000 if thorough else 260
    ctx.rule = ("verification: %d storages = generated healthy histories (1..3 groups, 0..3 backups each, unique / extern / empty lines) each with "
                "0..2 corruptions from: data / metadata file deleted, first / any backup deleted, extern hash edited, unique->extern, lines "
                "reordered / removed / added, no lines, garbage / truncated / unparsable manifest, stray visible / hidden entries at root and "
                "group level, abandoned temporary, backup renamed to another date, empty group, file with a backup name; age check: newest "
                "backup at threshold -1 s / exactly / +1 s for m / h / d thresholds, no threshold, no backups, future backup, empty trailing "
                "groups; name classification: a healthy storage plus one entry (directory / file, at the root / in the group) whose name is a group or "
                "backup name with one character replaced, dropped or doubled, with prefixes / suffixes, in non-ASCII digits - listing vs the NameClass model. "
                "Non-trivial: at least one corruption or an age case; distinct by content." % n)
    storages = []
    for _ in range(n):
        st = gen_healthy(rng)
        labels = []
        for _ in range(rng.choice([0, 1, 1, 1, 2])):
            lab, st2 = corrupt(rng, st)
            if lab != "none":
                labels.append(lab)
                st = st2
        # duplicate names would make the real tree differ from the abstract one: drop such cases
        names = [bname(e["day"], e["time"]) for g in st["groups"] for e in g["entries"]]
        per_group_ok = all(len({bname(e["day"], e["time"]) for e in g["entries"]} | {x["name"] for x in g["extra"]}) == len(g["entries"]) + len(g["extra"])
                           for g in st["groups"])
        root_names = [x["name"] for x in st["root_extra"]]
        if not per_group_ok or len(set(root_names)) != len(root_names) or len({g["day"] for g in st["groups"]}) != len(st["groups"]):
            continue
        storages.append((labels, st))
    sb = slevel.Sandbox("c13")
    try:
        def write(i_st):
            i, (labels, st) = i_st
            root = sb.path("s%d" % i)
            sb.write_storage(real_spec(st), root)
            return root
        with ThreadPoolExecutor(max_workers=12) as ex:
            roots = list(ex.map(write, enumerate(storages)))
        mcases = [[1300, [model_storage(st)]] for _, st in storages]
        icases = [[1300, [list(r.encode())]] for r in roots]
        mres = model.run_driver(mcases)
        vres = model.run_vm(mcases[:8])
        if vres != mres[:8]:
            raise build.BuildError("extracted model and vm_compute disagree on verify")
        ctx.extra["vm_compute_cross_checked"] = 8
        ires = impl.run_lines(icases, shards=8)
        ndiff = 0
        first = None
        for (labels, st), m, r, root in zip(storages, mres, ires, roots):
            ctx.evaluations += 1
            for lab in labels or ["healthy"]:
                ctx.count("storage." + lab)
            if labels:
                ctx.nontrivial.add(sexp.dumps(model_storage(st)))
            exp = [m[1], m[2]]
            obs = [r[1], r[2]] if r[0] == 0 else ["listing failed"]
            ctx.count("verdict.%s" % ("consistent" if m[2] else "inconsistent"))
            if exp != obs:
                ndiff += 1
                if first is None:
                    first = (labels, st, m, r)
            if len(ctx.samples) < 4 and labels:
                ctx.sample({"corruptions": labels, "groups": [[gname(g["day"]), [bname(e["day"], e["time"]) for e in g["entries"]]] for g in st["groups"]],
                            "model": {"listing_ok": m[1], "verified": m[2]}, "impl": {"listing_ok": r[1], "verified": r[2]} if r[0] == 0 else "listing failed"})
        ctx.count("verify.diffs", ndiff)
        if first:
            labels, st, m, r = first
            # the model IS the declarative Healthy predicate (verify_iff): a difference means the real verifier disagrees with it
            ctx.violation("verify", "verification verdict differs from the healthy predicate on a storage with %s: implementation says (listing ok, verified) = %s, "
                          "the predicate says %s (%d storages differ)" % (labels or "no corruption", r[1:3] if r[0] == 0 else "listing failed", m[1:3], ndiff),
                          {"corruptions": labels, "storage": real_spec(st), "model_storage": sexp.dumps(model_storage(st))})
        big_manifest_part(ctx, sb)
        if not ctx.has_failing_input():
            from vlib import namerun
            namerun.run(ctx, sb)
        age_part(ctx, sb)
        if not ctx.has_failing_input():
            build.ensure_vsb()
            e2e_age(ctx, sb)
    finally:
        sb.close()
    runs_part(ctx)
    ctx.assumptions += ["regex crate matches the two name patterns as written (the classification they induce is the Gallina model NameClass, compared with the real "
                        "listing on names around the two shapes - vlib/namerun.py)",
                        "zstd decoding fails on garbage / truncated input (observed)"]


def big_manifest_part(ctx, sb):
    """a manifest of several compression blocks (thousands of records) cut off in the middle: a decodable prefix, then a broken stream.
    The healthy predicate flags it; so must the real verifier.  (The intact version must verify.)"""
    day = 3
    lines = [{"unique": True, "hash": hhex(100000 + i), "fp": [1, 2, 3 + i], "size": 1 + i % 7, "path_hex": (b"/p/big/%05d" % i).hex()} for i in range(4000)]
    for label, extra, want in (("intact", {}, [1, 1]), ("cut to 60%", {"meta_truncate_permille": 600}, [1, 0]), ("cut to 97%", {"meta_truncate_permille": 970}, [1, 0])):
        root = sb.path("big-%s" % label.replace(" ", "").replace("%", ""))
        b = {"name": bname(day, 3600), "manifest": lines, "entries": []}
        b.update(extra)
        sb.write_storage({"groups": [{"name": gname(day), "backups": [b]}]}, root)
        r = impl.run_lines([[1300, [list(root.encode())]]])[0]
        ctx.evaluations += 1
        ctx.count("storage.big-manifest-" + label.replace(" ", "-"))
        ctx.nontrivial.add(("big-manifest", label))
        got = r[1:3] if r[0] == 0 else None
        if got != want:
            ctx.violation("verify", "verification verdict on a 4000-record manifest %s: implementation says (listing ok, verified) = %s, the healthy predicate says %s"
                          % (label, got, want), {"manifest_records": 4000, "corruption": label})
            return


def runs_part(ctx):
    """second claim: histories of real runs - completing, failing with an injected I/O error, killed at a storage call -
    on the same and on later days; after every run the real verifier must accept the storage (known findings F3 / F10
    are recognised by their class)"""
    from vlib import runs, trace
    rng = ctx.rng
    thorough = ctx.tier == "thorough"
    nhist, nruns = (40, 8) if thorough else (5, 6)
    for h in range(nhist):
        with slevel.Sandbox("c13r") as sb:
            H = runs.History(ctx, sb, rng, "C13", rng.randrange(1, 4), rng.randrange(1, 4))
            H.w.populate(nfiles=5)
            for i in range(nruns):
                r = rng.random()
                kw = None
                if r < 0.25:
                    sc, k = rng.choice([("mkdir", 1), ("mkdir", 2), ("fsync", 1), ("fsync", 2), ("fsync", 3), ("rename", 1), ("openat", 12), ("write", 9)])
                    kw = {"prefix": trace.strace_cmd(sb.path("k.txt"), trace.STORAGE_CALLS, inject=["%s:signal=KILL:when=%d" % (sc, k)])}
                    ctx.count("runs.killed")
                elif r < 0.45:
                    sc, k, err = rng.choice([("mkdir", 2, "ENOSPC"), ("fsync", 1, "EIO"), ("fsync", 3, "EIO"), ("rename", 1, "EACCES"), ("write", 8, "ENOSPC")])
                    kw = {"prefix": trace.strace_cmd(sb.path("k.txt"), trace.STORAGE_CALLS, inject=["%s:error=%s:when=%d" % (sc, err, k)])}
                    ctx.count("runs.failing")
                else:
                    ctx.count("runs.completing")
                H.run(backup_kwargs=kw)
                if len(ctx.violations) >= 3:
                    break
            if len(ctx.samples) < 6:
                ctx.sample({"run_history": H.log[:5]})
        if ctx.violations:
            break


def age_part(ctx, sb):
    rng = ctx.rng
    cases = []
    units = [("m", 60), ("h", 3600), ("d", 86400)]
    for uname, usec in units:
        for k in (1, 2, 7, 30):
            thr = k * usec
            for delta in (-1, 0, 1, usec, -usec):
                age = thr + delta
                if age < 0:
                    continue
                cases.append(([[NOW - age - 5000, NOW - age]], thr, True))
                cases.append(([[NOW - age - 90000], [NOW - age], []], thr, True))          # empty trailing group
                cases.append(([[NOW - age], [], []], thr, False))
    cases.append(([], 3600, True))
    cases.append(([[]], 3600, True))
    cases.append(([[], []], None, True))
    cases.append(([[NOW - 10]], None, True))
    cases.append(([[NOW + 100]], 60, True))
    cases.append(([[NOW - 100], [NOW + 5]], 60, True))
    for _ in range(60):
        gs = []
        t = NOW - rng.randrange(0, 40 * 86400)
        for _ in range(rng.randrange(0, 4)):
            g = []
            for _ in range(rng.randrange(0, 3)):
                g.append(t)
                t += rng.randrange(1, 3 * 86400)
            gs.append(g)
        cases.append((gs, rng.choice([None, 60, 3600, 86400, 7 * 86400, 30 * 86400]), rng.random() < 0.7))
    mcases = []
    icases = []
    kept = []
    for i, (gs, thr, consistent) in enumerate(cases):
        # one group per distinct day, backups named by their time
        spec_groups = []
        days = set()
        ok = True
        for gi, g in enumerate(gs):
            if g:
                d = (g[0] - BASE_DAY) // 86400
            else:
                d = max(days | {0}) + 1 + gi
            if d in days or d < 0:
                ok = False
                break
            days.add(d)
            bs = []
            for t in g:
                name = time.strftime("%Y.%m.%d-%H:%M:%S", time.gmtime(t))
                bs.append({"name": name, "manifest": [{"unique": True, "hash": hhex(1), "fp": [1, 2, 3], "size": 1, "path_hex": b"/p".hex()}], "entries": []})
            spec_groups.append((gname(d), bs))
        if not ok or [n for n, _ in spec_groups] != sorted(n for n, _ in spec_groups) or any(g != sorted(g) for g in gs):
            continue
        root = sb.path("a%d" % i)
        sb.write_storage({"groups": [{"name": n, "backups": bs} for n, bs in spec_groups]}, root)
        mcases.append([1301, [gs, NOW, [thr] if thr is not None else []]])
        icases.append([1301, [list(root.encode()), [thr] if thr is not None else [], int(consistent)]])
        kept.append((gs, thr, consistent))
    mres = model.run_driver(mcases)
    env = {"LD_PRELOAD": aux.ensure_faketime(), "VERIF_FAKE_TIME": str(NOW), "TZ": "UTC"}
    ires = impl.run_lines(icases, env=env)
    for (gs, thr, consistent), m, r in zip(kept, mres, ires):
        if len(ctx.violations) >= 3:
            break
        ctx.evaluations += 1
        ctx.nontrivial.add(("age", str(gs), thr, consistent))
        code = m[1]
        recs = r[1] if r[0] == 0 else None
        if recs is None:
            ctx.violation("age", "check_backups could not be run", {"groups": gs})
            continue
        errs = [x[1] for x in recs if x[0] == 1]
        alarm = 4 in errs
        nob = 2 in errs
        fut = 3 in errs
        exp_alarm = code == 4
        ctx.count("age.%s" % {0: "no-threshold", 1: "fresh", 2: "no-backups", 3: "future", 4: "too-old"}[code])
        newest = None
        for g in gs:
            if g:
                newest = g[-1]
        desc = "groups=%s now=%d threshold=%s" % (gs, NOW, thr)
        # the property, evaluated directly on the implementation
        want_alarm = newest is not None and thr is not None and newest <= NOW and NOW - newest >= thr
        if alarm != want_alarm:
            ctx.violation("age", "age alarm %s although the newest backup is %s old and the threshold is %s (%s)" % (
                "raised" if alarm else "not raised", (NOW - newest) if newest is not None else None, thr, desc), {"groups": gs, "now": NOW, "threshold": thr,
                "records": [[x[0], x[1], bytes(x[2]).decode()] for x in recs]})
            continue
        if nob != (newest is None):
            ctx.violation("age", "'no backups' report is %s for %s" % (nob, desc), {"groups": gs})
            continue
        if (alarm, nob, fut) != (exp_alarm, code == 2, code == 3):
            ctx.violation("age-model", "correspondence age-check no longer checks: model code %d, implementation records %s (%s)" % (code, errs, desc),
                          {"groups": gs, "threshold": thr}, failing_input=False)
        nempty = sum(1 for x in recs if x[1] == 5)
        if nempty != m[3]:
            ctx.violation("age-model", "correspondence age-check (empty groups) no longer checks: model %d, implementation %d (%s)" % (m[3], nempty, desc),
                          {"groups": gs}, failing_input=False)


def e2e_age(ctx, sb):
    """the staleness alarm through the real `vsb upload`: local storage and an already synced cloud copy (provider emulator), the threshold in the
    configuration, the clock faked; the alarm lines for the local storage and for the cloud vs the alarm model"""
    import hashlib
    from vlib import cloud as cl
    rng = ctx.rng
    xh = hashlib.sha512(b"x").hexdigest()
    cases = []
    for unit, usec in (("m", 60), ("h", 3600), ("d", 86400)):
        k = rng.choice([1, 2, 7, 30])
        thr = k * usec
        for delta in (-1, 0, 1):
            cases.append(([[NOW - thr - delta - 7000, NOW - thr - delta]], thr, "%d%s" % (k, unit)))
    cases.append(([[NOW - 3 * 86400], []], 86400, "1d"))                      # empty trailing group: the newest backup is in the older group
    cases.append(([[NOW - 3 * 86400], []], 7 * 86400, "7d"))
    cases.append(([[NOW - 100]], None, None))
    # local time zones with daylight saving, the newest backup on the other side of a switch: names are local times, ages are instants
    for zone, days in (("Europe/Berlin", 61), ("Australia/Sydney", 91)):
        for delta in (-1800, 1800):
            cases.append(([[NOW - days * 86400 - delta]], days * 86400, "%dd" % days, zone))
    if ctx.tier == "thorough":
        for _ in range(40):
            gs, t = [], NOW - rng.randrange(0, 40 * 86400)
            for _ in range(rng.randrange(1, 4)):
                g = []
                for _ in range(rng.randrange(0, 3)):
                    g.append(t)
                    t += rng.randrange(1, 3 * 86400)
                gs.append(g)
            k, (unit, usec) = rng.choice([1, 2, 7, 30]), rng.choice([("m", 60), ("h", 3600), ("d", 86400)])
            cases.append((gs, k * usec, "%d%s" % (k, unit)))
    providers = ["dropbox", "yandex", "google"]
    try:
        for n, case in enumerate(cases):
            gs, thr, thr_s = case[:3]
            zone = case[3] if len(case) > 3 else None
            if zone:
                import datetime
                import zoneinfo
                z = zoneinfo.ZoneInfo(zone)

                def local_name(t, fmt):
                    return datetime.datetime.fromtimestamp(t, z).strftime(fmt)
            spec_groups, days, ok = [], set(), True
            for gi, g in enumerate(gs):
                d = (g[0] - BASE_DAY) // 86400 if g else max(days | {0}) + 1 + gi
                if zone:
                    d = 1000 + gi       # names come from the zone's local time below; only distinctness matters here
                if d in days or d < 0 or (g and not zone and any((t - BASE_DAY) // 86400 < d for t in g)):
                    ok = False
                    break
                days.add(d)
                spec_groups.append((local_name(g[0], "%Y.%m.%d") if zone and g else gname(d),
                                    [{"name": local_name(t, "%Y.%m.%d-%H:%M:%S") if zone else time.strftime("%Y.%m.%d-%H:%M:%S", time.gmtime(t)),
                                                "manifest": [{"unique": True, "hash": xh, "fp": [1, 2, 3], "size": 1, "path_hex": b"/p".hex()}],
                                                "entries": [{"type": "file", "path_hex": b"p".hex(), "data_hex": b"x".hex()}]} for t in g]))
            if not ok or [x for x, _ in spec_groups] != sorted(x for x, _ in spec_groups) or any(g != sorted(g) for g in gs) or not any(gs):
                continue
            st = sb.path("e2e-st%d" % n)
            sb.write_storage({"groups": [{"name": gn, "backups": bs} for gn, bs in spec_groups]}, st)
            provider = providers[n % 3]
            cl.write_upload_config(sb, st, provider, max_groups=10, max_age=thr_s)
            ns = {cl.CLOUD_ROOT: {"type": "folder"}}
            for gn, bs in spec_groups:
                ns["%s/%s" % (cl.CLOUD_ROOT, gn)] = {"type": "folder"}
                for b in bs:
                    ns["%s/%s/%s.tar.gpg" % (cl.CLOUD_ROOT, gn, b["name"])] = {"type": "file", "content_hex": b"synced".hex()}
            emu = cl.Emu(sb.path("e2e-emu%d" % n), init={"dropbox": ns, "yandex": ns, "google": ns})
            try:
                r = cl.run_upload(sb, emu, now=NOW, timeout=90, extra_env={"TZ": zone} if zone else None)
            finally:
                emu.stop()
            m = model.run_driver([[1301, [gs, NOW, [thr] if thr is not None else []]]])[0]
            code = m[1]
            parts = r["out"].split("Checking backups on ")
            # parts[1] = local storage (listing, verification, check), parts[2] = first cloud listing + sync, parts[3] = final cloud check
            local_part = parts[1] if len(parts) > 1 else ""
            cloud_part = parts[-1] if len(parts) > 3 else ""
            ctx.evaluations += 1
            ctx.count("e2e-age.%s" % {0: "no-threshold", 1: "fresh", 2: "no-backups", 3: "future", 4: "too-old"}[code])
            if zone:
                ctx.count("e2e-age.zone." + zone)
            ctx.nontrivial.add(("e2e-age", str(gs), thr))
            newest = max((t for g in gs for t in g), default=None)
            want = newest is not None and thr is not None and newest <= NOW and NOW - newest >= thr
            desc = "provider=%s groups=%s now=%d threshold=%s zone=%s" % (provider, gs, NOW, thr_s, zone or "UTC")
            for side, text in (("local storage", local_part), ("cloud", cloud_part)):
                alarm = "doesn't have any backup for last" in text
                if alarm != want:
                    ctx.violation("e2e-age", "real `vsb upload`: the staleness alarm for the %s is %s although the newest backup is %s s old and the threshold is %s (%s)"
                                  % (side, "raised" if alarm else "not raised", NOW - newest if newest is not None else None, thr_s, desc),
                                  {"groups": gs, "threshold": thr_s, "provider": provider, "output": r["out"][-900:]})
                    return
                if alarm != (code == 4):
                    ctx.violation("e2e-age", "correspondence staleness-alarm-end-to-end no longer checks: model code %d, alarm for the %s %s (%s)" % (code, side, alarm, desc),
                                  {"groups": gs, "threshold": thr_s}, failing_input=False)
                    return
            shutil.rmtree(sb.path("e2e-emu%d" % n), ignore_errors=True)
    finally:
        cl.kill_agents(sb)


def replay(ctx, doc):
    print("replay: the storage description is in the replay file under 'storage' (write it with `vsbh storage-write`, verify with `vsbh lines` tag 1300)")
    return 0
