"""C09 - content is stored at most once per group and unchanged files are not re-read.
Tie: duplication-heavy trees and histories (unchanged, touched-but-identical, renamed, content returning after being
absent) run through the real `vsb backup`; the decoded manifest (unique / extern flags) and entry sizes are compared
with the Gallina run model; the `read` system calls on source files are counted per path from an strace of the real
run: 0 bytes for an empty or unchanged file, one pass for content the group already stores, two passes for new content."""
import os
import re

from vlib import build, runs, slevel


def read_counts(trace_path, src_root):
    """bytes read per source path, from `strace -f -e trace=openat,read,close`"""
    fds = {}
    counts = {}
    rx_open = re.compile(r'^(\d+)\s+openat\(AT_FDCWD, "((?:[^"\\]|\\.)*)", ([A-Z_|]+)(?:, \d+)?\)\s+= (\d+)')
    rx_read = re.compile(r'^(\d+)\s+read\((\d+), .*\)\s+= (\d+)')
    rx_close = re.compile(r'^(\d+)\s+close\((\d+)\)')
    pending = {}
    rx_unf = re.compile(r'^(\d+)\s+(.*) <unfinished \.\.\.>\s*$')
    rx_res = re.compile(r'^(\d+)\s+<\.\.\. \w+ resumed>(.*)$')
    with open(trace_path, errors="replace") as f:
        for line in f:
            u = rx_unf.match(line)
            if u:
                pending[u.group(1)] = u.group(2)
                continue
            r = rx_res.match(line)
            if r and r.group(1) in pending:
                line = "%s %s%s" % (r.group(1), pending.pop(r.group(1)), r.group(2))
            m = rx_open.match(line)
            if m:
                path = m.group(2).encode().decode("unicode_escape").encode("latin-1").decode("utf-8", "replace")
                if path.startswith(src_root) and "O_DIRECTORY" not in m.group(3):
                    fds[m.group(4)] = path
                    counts.setdefault(path, 0)
                else:
                    fds.pop(m.group(4), None)
                continue
            m = rx_read.match(line)
            if m and m.group(2) in fds:
                counts[fds[m.group(2)]] += int(m.group(3))
                continue
            m = rx_close.match(line)
            if m:
                fds.pop(m.group(2), None)
    return counts


def run(ctx):
    thorough = ctx.tier == "thorough"
    rng = ctx.rng
    build.ensure_vsb()
    build.ensure_vsbh()
    nhist, nruns = (40, 9) if thorough else (6, 6)
    ctx.rule = ("%d histories of %d runs on duplication-heavy trees (a third of new files reuse an existing content; empty files; the same "
                "content at many paths within and across two items); edits touch / rename / rewrite-same-content / delete and re-add; every "
                "run is traced (strace openat/read/close) and the bytes read from each source file are compared with 0, 1x or 2x its size as "
                "the dedup decision predicts. Non-trivial: a published run; distinct by (clock, tree size, edits, group sizes)." % (nhist, nruns))
    for h in range(nhist):
        with slevel.Sandbox("c09") as sb:
            H = runs.History(ctx, sb, rng, "C09", rng.randrange(1, 4), rng.randrange(2, 5), nitems=2, identity_changes=True)
            H.w.populate(nfiles=12)
            # files whose modification time lies before 1970 and has a sub-second part (restored from old media): never edited, so every run
            # after their first must leave them unread
            for k, (sec, nsec) in enumerate([(-157766400, 500000000), (-1, 999999999), (-315619200, 1)]):
                pth = os.path.join(H.w.src, H.w.items[k % 2], "keeper-old-%d" % k)
                H.w.write_file(pth, bytes((i * 3 + k) % 251 for i in range(700 + k)))
                os.utime(pth, ns=(sec * 10 ** 9 + nsec, sec * 10 ** 9 + nsec))
                ctx.count("files.pre-1970-fractional-mtime")
            for i in range(nruns):
                trace = sb.path("trace-%d.txt" % i)
                before = H.dec
                res, published, name = H.run(backup_kwargs={"prefix": ["strace", "-f", "-o", trace, "-e", "trace=openat,read,close"]})
                if published and os.path.exists(trace):
                    check_reads(ctx, H, name, before, trace)
                if os.path.exists(trace):
                    os.remove(trace)
                if len(ctx.violations) >= 3:
                    break
            H.report_diffs("backup-run")
            if len(ctx.samples) < 3:
                ctx.sample({"history": H.log[:4]})
        if ctx.violations:
            break
    # targeted: content that leaves the tree for one or two runs and comes back (same or another path) while its group still holds it
    for absent_runs in ((1, 2) if not ctx.has_failing_input() else ()):
        with slevel.Sandbox("c09") as sb:
            H = runs.History(ctx, sb, rng, "C09", 3, 6, nitems=2, identity_changes=True)
            H.advance = lambda: None
            H.now += 3600
            H.w.populate(nfiles=5)
            top0, top1 = (os.path.join(H.w.src, it) for it in H.w.items)
            blob = bytes((i * 7 + absent_runs) % 251 for i in range(30000))
            H.w.write_file(os.path.join(top0, "holiday.bin"), blob)
            H.w.write_file(os.path.join(top1, "holiday-copy.bin"), blob)
            steps = [lambda: None,
                     lambda: (H.w.remove(os.path.join(top0, "holiday.bin")), H.w.remove(os.path.join(top1, "holiday-copy.bin")))]
            steps += [lambda: H.w.edit()] * (absent_runs - 1)
            steps += [lambda: H.w.write_file(os.path.join(top1, "back-again.bin"), blob), lambda: None]
            for i, step in enumerate(steps):
                step()
                H.now += 61
                trace = sb.path("trace-t%d.txt" % i)
                before = H.dec
                res, published, name = H.run(nedits=0, backup_kwargs={"prefix": ["strace", "-f", "-o", trace, "-e", "trace=openat,read,close"]})
                if published and os.path.exists(trace):
                    check_reads(ctx, H, name, before, trace)
                if ctx.violations:
                    break
            ctx.count("targeted.content-returns-after-%d-runs" % absent_runs)
            H.report_diffs("backup-run")
    ctx.traces = ctx.evaluations
    ctx.assumptions += ["source files are static during each run", "strace reports every read(2) of the traced process tree"]


def check_reads(ctx, H, name, before, trace):
    snap = H.snapshots.get(name)
    if snap is None:
        return
    counts = read_counts(trace, H.w.src)
    # the group the backup went to, before the run
    la, _ = runs.listing(H.dec)
    gname = [g for g, fin, _, _ in la if name in fin][0]
    gb = [g for g in before["groups"] if g["name"] == gname]
    prev = [e for e in (gb[0]["entries"] if gb else []) if runs.recognised(e)]
    last_lines = runs.parse_manifest(prev[-1]) if prev else None
    last = {}
    for l in (last_lines or []):
        last[l["path"]] = l
    known = set()
    for e in prev:
        for l in (runs.parse_manifest(e) or []):
            if l["unique"]:
                known.add(l["hash"])
    for n in snap:
        if n["kind"] != "file":
            continue
        size = len(n["data"])
        p = os.fsencode(n["path"])
        h = slevel.sha512(n["data"])
        if size == 0:
            want, why = 0, "empty"
        elif p in last and last[p]["fp"] == n["fp"] and last[p]["size"] == size:
            want, why = 0, "unchanged since the previous backup of the group"
        elif h in known:
            want, why = size, "content already stored in the group"
        else:
            want, why = 2 * size, "content new to the group"
            known.add(h)
        if n["path"] not in counts:
            ctx.count("reads.open-not-seen-in-trace")       # a gap in the trace (interleaved output): nothing to compare
            continue
        got = counts[n["path"]]
        ctx.count("reads." + why.split(" ")[0])
        if got != want:
            import shutil
            shutil.copy(trace, "/tmp/c09-failing-trace.txt")
            H.violation("C09", "%r (%d bytes, %s) was read for %d bytes, expected %d" % (n["path"], size, why, got, want), {"backup": name})
            return


def replay(ctx, doc):
    print("replay: histories are regenerated deterministically from VERIF_SEED; the failing history is in the replay file")
    return 0
