"""C08 - exit status 0 from backup means nothing was silently left out.
Tie: real `vsb backup` runs over generated trees (files, directories, symlinks, fifos, names that are not UTF-8 or hold
CR / LF, missing items) with failures of stat / open / readdir / read / readlink injected at chosen paths (strace
inject located from a reference trace), one at a time and in pairs; exit status, error / warning counts and the
published backup are compared with the Gallina walker model with per-node faults, and the property itself is
evaluated on the real result (exit 0 => every unfaulted path is in the backup with its content; source never written)."""
import os
import shutil

from vlib import build, model, runs, slevel, trace, walkrun

NOW = 1700000000
WRITE_CALLS = ["unlink", "unlinkat", "rename", "renameat", "renameat2", "chmod", "fchmod", "fchmodat", "utimensat", "mkdir", "mkdirat", "truncate", "ftruncate",
               "chown", "fchown", "lchown", "fchownat", "symlink", "symlinkat", "link", "linkat", "write"]


def traced(case, inject):
    tf = case.sb.path("walk-trace.txt")
    if os.path.exists(tf):
        os.remove(tf)
    strace = shutil.which("strace")
    prefix = [strace] + trace.strace_cmd(tf, walkrun.TRACE_CALLS + WRITE_CALLS, inject=inject)[1:]
    rc, out = case.sb.vsb(["backup", "w"], now=NOW, prefix=prefix)
    return rc, out, trace.parse(tf)


def source_writes(ev, src):
    """calls that would create, modify or delete something below the source items"""
    bad = []
    for e in ev:
        if e["name"] == "+exit":
            continue
        a = e.get("args", [])
        paths = []
        if e["name"] == "openat" and len(a) > 2:
            if any(f in a[2] for f in ("O_WRONLY", "O_RDWR", "O_CREAT", "O_TRUNC", "O_APPEND")):
                paths.append(trace.str_arg(a[1]))
        elif e["name"] == "write" and a:
            paths.append(trace.fd_path(a[0]))
        elif e["name"] in WRITE_CALLS:
            for x in a:
                p = trace.str_arg(x) or trace.fd_path(x)
                if p:
                    paths.append(p)
        for p in paths:
            if p and (p == src or p.startswith(src + "/")):
                bad.append(e["raw"][:200])
    return bad


def one_case(ctx, rng, sb, nfaults, force_late=False):
    nitems = rng.choice([1, 1, 2])
    items = []
    for i in range(nitems):
        tree = walkrun.gen_tree(rng)
        if tree["kind"] != "dir" and rng.random() < 0.7:
            tree = {"kind": "dir", "children": [(1, tree), (2, walkrun.gen_tree(rng, 1))], "fault": "none"}
        if tree["kind"] in ("special", "sym"):
            # item roots are canonicalised (symlinks resolved) before the walk: a symlink is never an item root
            tree = {"kind": "dir", "children": [(1, tree)], "fault": "none"}
        hooks = [None, None]
        if rng.random() < 0.3:
            hooks = [rng.choice([None, True, False]), rng.choice([None, True, False])]
        items.append({"before": hooks[0], "after": hooks[1], "tree": tree if rng.random() > 0.08 else None})
    rotation = rng.random() < 0.5
    case = walkrun.WalkCase(sb, items, fail_seed=rng.randrange(4), rotation=rotation)
    ctx.count("storage.rotation-due" if rotation else "storage.fresh")
    # undecodable / unrepresentable names inside directories of the tree
    bad_paths = [[] for _ in items]
    for i, it in enumerate(items):
        if it["tree"] is None or it["tree"]["kind"] != "dir":
            continue
        if rng.random() < 0.3:
            dirs = [(p, n) for p, n in walkrun.nodes_of(it["tree"]) if n["kind"] == "dir"]
            p, d = rng.choice(dirs)
            real = os.path.join(case.roots[i].encode(), *[walkrun.name_of(x).encode() for x in p])
            nm_id = 50 + rng.randrange(5)
            raw = rng.choice([b"bad\xff\xfename", b"cr\rname", b"lf\nname"])
            try:
                with open(os.path.join(real, raw), "wb") as f:
                    f.write(b"x")
            except OSError:
                continue
            d["children"].append((nm_id, {"kind": "file", "data": b"x", "fault": "none", "rawname": raw}))
            bad_paths[i].append(list(p) + [nm_id])
    for i, it in enumerate(items):
        if it["tree"] is not None:
            reorder_with_raw(case.roots[i].encode(), it["tree"])
    # choose fault sites
    sites = []
    for i, it in enumerate(items):
        if it["tree"] is None:
            continue
        for p, n in walkrun.nodes_of(it["tree"]):
            if n["kind"] in ("file", "dir", "sym") and "rawname" not in n:
                sites.append((i, p, n))
    chosen = rng.sample(sites, min(nfaults, len(sites))) if sites else []
    if force_late:
        # targeted: one read error, in the archiving pass of a non-empty file (not the last node, if there is a choice)
        fsites = [s_ for s_ in sites if s_[2]["kind"] == "file" and len(s_[2]["data"]) > 0]
        if not fsites:
            return False
        chosen = [rng.choice(fsites[:-1] or fsites)]
    # inject in walk order: locating a later site in a trace that already has the earlier injections keeps every ordinal exact
    chosen.sort(key=lambda s_: sites.index(s_))
    inject = []
    for (i, p, n) in chosen:
        fault = "readerr" if force_late else rng.choice(["vanish", "denied", "typechange", "readerr"])
        if n["kind"] == "file" and fault == "readerr" and len(n["data"]) == 0:
            fault = "denied"
        path = os.path.join(case.roots[i], *[walkrun.name_of(x) for x in p])
        case.reset_storage()
        rc0, out0, ev0 = traced(case, inject or None)
        # a read error of a file strikes either in the hashing pass (first read) or - every other time - while the file's bytes are being archived
        late = fault == "readerr" and n["kind"] == "file" and (force_late or rng.random() < 0.5)
        inj = case.find_injection(ev0, path, n["kind"], fault, late=late, size=len(n["data"])) if late else None
        if inj is None:
            late = False
            inj = case.find_injection(ev0, path, n["kind"], fault)
        if late:
            ctx.count("fault.readerr.file.while-archiving")
        if inj is None:
            continue            # not reached (pruned by an earlier fault): the model agrees that nothing happens there
        if any(x.startswith(inj[0] + ":") for x in inject):
            continue            # strace keeps one injection per system call name: a second one would replace the first
        n["fault"] = fault
        inject.append("%s:error=%s:when=%d" % inj)
        ctx.count("fault.%s.%s%s" % (fault, n["kind"], ".top" if not p else ""))
    case.reset_storage()
    rc, out, ev = traced(case, inject or None)
    wire = [1900, [[[walkrun.hook_wire(it["before"]), walkrun.hook_wire(it["after"]), [walkrun.wire_node(it["tree"])] if it["tree"] is not None else [], bad_paths[i]]
                    for i, it in enumerate(items)]]]
    mres = model.run_driver([wire])[0]
    arch, m_err, m_warn, aborted, ok = walkrun.model_archive(mres)
    errs = slevel.errors_of(out)
    warns = [w for w in slevel.warnings_of(out) if "hard links" not in w]
    dec = sb.read_storage(case.st)
    la, _ = runs.listing(dec)
    published = [b for g_, fin, _, _ in la for b in fin if g_ != walkrun.WalkCase.OLD_GROUP]
    old_group_left = any(g_ == walkrun.WalkCase.OLD_GROUP for g_, _, _, _ in la)
    desc = {"items": len(items), "faults": [(f, ) for f in inject], "missing_items": [i for i, it in enumerate(items) if it["tree"] is None],
            "unrepresentable_names": sum(len(b) for b in bad_paths)}
    ctx.evaluations += 1
    ctx.nontrivial.add(repr((wire, inject)))
    ctx.sample({"case": desc, "exit": rc, "errors": len(errs), "warnings": len(warns), "published": bool(published)})
    # ---- archived paths of the real backup ----
    got = None
    if published:
        g = dec["groups"][-1]
        b = [e for e in g["entries"] if e["name"] == published[-1]][0]
        got = {}
        for e in b.get("archive", {}).get("entries", []):
            if "path_hex" in e:
                got[b"/" + bytes.fromhex(e["path_hex"]).rstrip(b"/")] = e
    # ---- the property on the real run ----
    problem = None
    sw = source_writes(ev, case.src)
    if sw:
        problem = "vsb wrote below the configured items: %s" % sw[:2]
    if not problem and rc == 0:
        if not published:
            problem = "exit 0 but nothing was published"
        else:
            for i, it in enumerate(items):
                if it["before"] is False or it["after"] is False:
                    problem = "exit 0 although a hook of item %d failed (non-zero exit status or death from a signal)" % i
                    ctx.count("hook.failing")
                    break
                if it["tree"] is None:
                    problem = "exit 0 although item %d does not exist" % i
                    break
                for p, n in walkrun.nodes_of(it["tree"]):
                    if n["kind"] == "special":
                        continue
                    # reachable through unfaulted directories?
                    node, reach = it["tree"], True
                    for x in p:
                        if node.get("fault", "none") != "none":
                            reach = False
                        node = dict(node["children"])[x]
                    if not reach:
                        continue
                    if p and n.get("fault", "none") in ("vanish", "typechange"):
                        continue        # below the top level: skipped with a mere warning, as the property allows
                    real = case.roots[i].encode()
                    nn = it["tree"]
                    for x in p:
                        nn = dict(nn["children"])[x]
                        real = os.path.join(real, nn.get("rawname", walkrun.name_of(x).encode()))
                    if n.get("fault", "none") != "none" or "rawname" in n:
                        problem = "exit 0 although %r could not be read or represented" % real
                        break
                    if real not in got:
                        problem = "exit 0 but %r is not in the published backup" % real
                        break
                    if n["kind"] == "file" and got[real].get("type") == "file":
                        pass
                if problem:
                    break
    if not problem and rc != 0 and published and got is not None:
        # "... the run either still publishes a backup holding all other paths or ... publishes nothing": whatever is unfaulted, representable and
        # reached through unfaulted, prepared items must be in a backup that was published, also when the exit status is non-zero
        for i, it in enumerate(items):
            if it["tree"] is None or problem:
                continue
            for p, n in walkrun.nodes_of(it["tree"]):
                if n["kind"] == "special" or n.get("fault", "none") != "none" or "rawname" in n:
                    continue
                node, reach = it["tree"], True
                real = case.roots[i].encode()
                for x in p:
                    if node.get("fault", "none") != "none" or "rawname" in node:
                        reach = False
                    node = dict(node["children"])[x]
                    real = os.path.join(real, node.get("rawname", walkrun.name_of(x).encode()))
                if not reach:
                    continue
                if real not in got:
                    problem = "a backup was published (exit %d) but it lacks %r, with which nothing was wrong" % (rc, real)
                    break
    if not problem and published:
        # "... or, when the error strikes while a file's bytes are being archived, publishes nothing": whatever is published is a whole backup - its
        # archive and manifest decode, and every record marked unique has its entry with the recorded size and hash
        rarch = b.get("archive", {})
        ents = rarch.get("entries")
        lines = runs.parse_manifest(b)
        if ents is None or "error" in rarch or any("error" in e for e in ents):
            problem = "a backup was published (exit %d) whose data archive does not decode to the end (%s)" % (
                rc, rarch.get("error") or next((e["error"] for e in (ents or []) if "error" in e), "no entries"))
        elif lines is None:
            problem = "a backup was published (exit %d) whose manifest does not decode" % rc
        else:
            byp = {bytes.fromhex(e["path_hex"]): e for e in ents if e.get("type") == "file"}
            for l in lines:
                if not l["unique"]:
                    continue
                e = byp.get(bytes(l["path"]).lstrip(b"/"))
                if e is None or e["size"] != l["size"] or e["sha512"] != l["hash"]:
                    problem = "a backup was published (exit %d) whose record of %r (unique, %d bytes) has %s" % (
                        rc, bytes(l["path"]), l["size"], "no archive entry" if e is None else "an archive entry of %d bytes with another hash" % e["size"])
                    break
    if not problem and rc != 0 and not errs:
        problem = "non-zero exit without any error-level report"
    if problem:
        ctx.violation("walk", problem, {"case": desc, "exit": rc, "errors": errs[:5], "warnings": warns[:5]})
        return
    # ---- correspondence with the model ----
    diffs = []
    if (rc == 0) != (ok and not aborted):
        diffs.append("exit %d vs model ok=%s aborted=%s" % (rc, ok, aborted))
    if bool(published) != (not aborted):
        diffs.append("published=%s vs model aborted=%s" % (bool(published), aborted))
    if len(errs) != m_err:
        diffs.append("%d error reports vs %d in the model" % (len(errs), m_err))
    if len(warns) != m_warn:
        diffs.append("%d warnings vs %d in the model" % (len(warns), m_warn))
    if published and not aborted:
        exp_paths = set()
        for (i, p, kind, payload) in arch:
            real = case.roots[i].encode()
            nn = items[i]["tree"]
            for x in p:
                nn = dict(nn["children"])[x]
                real = os.path.join(real, nn.get("rawname", walkrun.name_of(x).encode()))
            exp_paths.add((real, kind))
        got_paths = {(p, e["type"]) for p, e in got.items() if any(p == r.encode() or p.startswith(r.encode() + b"/") for r in case.roots)}
        if exp_paths != got_paths:
            diffs.append("archived paths differ: only in model %s, only in backup %s" % (sorted(exp_paths - got_paths)[:3], sorted(got_paths - exp_paths)[:3]))
    if diffs:
        ctx.violation("walk-model", "correspondence walker-faults no longer checks: %s" % "; ".join(diffs),
                      {"case": desc, "errors": errs[:6], "warnings": warns[:6], "model": str(mres)[:1500]}, failing_input=False)
        return
    ctx.traces += 1


def reorder_with_raw(top, tree):
    if tree["kind"] == "dir" and os.path.isdir(top) and not os.path.islink(top):
        order = {n: i for i, n in enumerate(os.listdir(top))}
        tree["children"].sort(key=lambda nc: order.get(nc[1].get("rawname", walkrun.name_of(nc[0]).encode()), 999))
        for n, c in tree["children"]:
            reorder_with_raw(os.path.join(top, c.get("rawname", walkrun.name_of(n).encode())), c)


def run(ctx):
    thorough = ctx.tier == "thorough"
    rng = ctx.rng
    build.ensure_vsb()
    build.ensure_vsbh()
    n = 600 if thorough else 40
    ctx.rule = ("%d generated cases: 1..2 items (8%% missing), trees of files (0..5000 bytes), directories, symlinks, fifos below the top level, "
                "30%% with a name that is not UTF-8 or holds CR / LF; 0, 1 or 2 faults per case at random paths - stat ENOENT (vanished), open / "
                "readlink EACCES (denied), open ELOOP / ENOTDIR / readlink EINVAL (type changed), read / getdents / readlink EIO - injected with "
                "strace at the call located in a reference trace; read errors of files strike in the hashing pass or in the archiving pass (targeted cases: always the latter). Non-trivial: every case; distinct by (trees, faults)." % n)
    for k in range(n):
        with slevel.Sandbox("c08") as sb:
            one_case(ctx, rng, sb, rng.choice([0, 1, 1, 1, 2, 2]))
        if len(ctx.violations) >= 3:
            break
    # targeted: the read error strikes while a file's bytes are being archived (second pass over the file) - nothing may be published
    done = 0
    for k in range(60 if thorough else 12):
        if ctx.has_failing_input() or done >= (20 if thorough else 4):
            break
        with slevel.Sandbox("c08") as sb:
            if one_case(ctx, rng, sb, 1, force_late=True) is not False:
                done += 1
    ctx.assumptions += ["strace injection makes exactly the located call fail with the chosen errno",
                        "we run as root: permission errors are injected, not produced with chmod"]


def replay(ctx, doc):
    print("replay: re-run ./check C08 with the same VERIF_SEED; the case is in the replay file")
    return 0
