"""C18 - upload checksums equal the providers' definitions for every fragmentation.
Tie: real ChunkedSha256 / Md5 (through write_all) vs the Gallina model on every composition of small inputs;
the providers' own hasher() at k*4MiB-1, k*4MiB, k*4MiB+1 vs hashlib (pins the block size and the choice);
real `vsb upload` of streams longer than 4 MiB through the real gpg to an honest emulated provider (the hashers as the encryptor feeds them)."""
import hashlib
import itertools

from vlib import sexp, impl

MiB = 1024 * 1024


def compositions(n):
    if n == 0:
        yield []
        return
    for bits in range(1 << (n - 1)):
        parts = []
        cur = 1
        for i in range(n - 1):
            if bits >> i & 1:
                parts.append(cur)
                cur = 1
            else:
                cur += 1
        parts.append(cur)
        yield parts


def data_of(n, salt):
    return bytes((i * 37 + salt * 11 + 5) % 256 for i in range(n))


def fragments(data, parts, empties=()):
    out = []
    pos = 0
    for k, p in enumerate(parts):
        if k in empties:
            out.append([])
        out.append(list(data[pos:pos + p]))
        pos += p
    if len(parts) in empties:
        out.append([])
    return out


def dropbox_def(bs, data):
    h = hashlib.sha256()
    for i in range(0, len(data), bs):
        h.update(hashlib.sha256(data[i:i + bs]).digest())
    return h.hexdigest()


def hex_of(v):
    return bytes(v).decode()


def exp_chunked(case, m):
    if m[0] != 0:
        return ["model-error", m]
    blocks = []
    cur = []
    for b in m[1]:
        if b == 256:
            blocks.append(bytes(cur))
            cur = []
        else:
            cur.append(b)
    assert not cur
    h = hashlib.sha256()
    for b in blocks:
        h.update(hashlib.sha256(b).digest())
    return h.hexdigest()


def obs_hex(case, r):
    if r[0] != 0:
        return ["impl-error", r]
    return hex_of(r[1])


def ok_chunked(case, r):
    bs, ws = case[1]
    data = bytes(itertools.chain.from_iterable(ws))
    want = dropbox_def(bs, data)
    got = obs_hex(case, r)
    return got == want, "ChunkedSha256(block %d) over %d bytes written as %s gives %s, the definition gives %s" % (
        bs, len(data), [len(w) for w in ws], got, want)


def exp_md5(case, m):
    return hashlib.md5(bytes(m[1])).hexdigest() if m[0] == 0 else ["model-error", m]


def ok_md5(case, r):
    data = bytes(itertools.chain.from_iterable(case[1][0]))
    want = hashlib.md5(data).hexdigest()
    got = obs_hex(case, r)
    return got == want, "Md5 over %d bytes written as %s gives %s, MD5 is %s" % (
        len(data), [len(w) for w in case[1][0]], got, want)


def describe(c):
    if c[0] == 1800:
        return {"block_size": c[1][0], "writes": [len(w) for w in c[1][1]]}
    return {"writes": [len(w) for w in c[1][0]]}


def pattern_stream(seed, total):
    pat = bytes((j * (seed % 250 + 1) + 3) % 251 for j in range(251))
    return (pat * (total // 251 + 1))[:total]


def run(ctx):
    thorough = ctx.tier == "thorough"
    maxlen = 12 if thorough else 10
    ctx.rule = ("exhaustive: block sizes 1..5 x input lengths 0..%d x every composition of the length into write calls "
                "(plus variants with empty writes inserted); MD5 wrapper on the same compositions for lengths 0..%d; "
                "random larger cases; the three providers' own hasher() at k*4MiB-1, k*4MiB, k*4MiB+1 against hashlib; real `vsb upload` runs through the real gpg "
                "of streams longer than one 4 MiB block to an honest emulated provider (the hasher fed by the encryptor's pipe reads). "
                "A case is non-trivial when the input is non-empty; distinct = distinct (block size, write sizes)."
                % (maxlen, 8))
    cases = []
    for bs in range(1, 6):
        for n in range(0, maxlen + 1):
            d = data_of(n, bs)
            for parts in compositions(n):
                cases.append([1800, [bs, fragments(d, parts)]])
                if n <= 6:
                    for e in range(len(parts) + 1):
                        cases.append([1800, [bs, fragments(d, parts, (e,))]])
    nrand = 2000 if thorough else 200
    for _ in range(nrand):
        bs = ctx.rng.choice([1, 2, 3, 4, 5, 7, 8, 16, 64])
        n = ctx.rng.randrange(0, 300)
        d = bytes(ctx.rng.randrange(256) for _ in range(n))
        parts = []
        left = n
        while left > 0:
            p = min(left, ctx.rng.choice([1, 1, 2, 3, bs, bs - 1 or 1, bs + 1, 2 * bs, ctx.rng.randrange(1, 40)]))
            parts.append(p)
            left -= p
        cases.append([1800, [bs, fragments(d, parts)]])
    ctx.exhaustive_part = True
    ctx.correspond("chunked", cases, exp_chunked, obs_hex, ok_chunked,
                   nontrivial=lambda c, m: (c[1][0], tuple(len(w) for w in c[1][1])) if any(c[1][1]) else None,
                   describe=describe)
    mcases = []
    for n in range(0, 9):
        d = data_of(n, 9)
        for parts in compositions(n):
            mcases.append([1801, [fragments(d, parts)]])
    ctx.correspond("md5", mcases, exp_md5, obs_hex, ok_md5,
                   nontrivial=lambda c, m: ("md5", tuple(len(w) for w in c[1][0])) if any(c[1][0]) else None,
                   describe=describe)
    # providers' own hashers at the real block size: implementation vs definition (no model evaluation here:
    # the model is parametric in the block size, this pins the constant and the provider -> hasher choice)
    pcases = []
    ks = [1, 2, 3] if thorough else [1, 2]
    for k in ks:
        for delta in (-1, 0, 1):
            total = k * 4 * MiB + delta
            for sizes in ([65536], [4 * MiB], [4 * MiB - 1, 3], [1000003]):
                pcases.append([1802, [0, total, k + 7, sizes]])
    for prov in (1, 2):
        for total in (0, 1, 4 * MiB, 4 * MiB + 1):
            pcases.append([1802, [prov, total, 5, [65536, 7]]])
    pcases.append([1802, [0, 0, 5, [1]]])
    pres = impl.run_lines(pcases)
    for c, r in zip(pcases, pres):
        prov, total, seed, sizes = c[1]
        data = pattern_stream(seed, total)
        want = dropbox_def(4 * MiB, data) if prov == 0 else hashlib.md5(data).hexdigest()
        got = obs_hex(c, r)
        ctx.evaluations += 1
        ctx.count("provider_hasher.cases")
        if total:
            ctx.nontrivial.add(("prov", prov, total, tuple(sizes)))
        if got != want:
            name = ["Dropbox", "Yandex Disk", "Google Drive"][prov]
            ctx.violation("provider-hasher", "%s hasher() over %d bytes (writes of %s) gives %s, the provider's definition gives %s"
                          % (name, total, sizes, got, want),
                          {"case": sexp.dumps(c), "provider": name, "total": total, "write_sizes": sizes})
    if not ctx.has_failing_input():
        upload_part(ctx)
    ctx.sample({"check": "provider-hasher", "case": {"provider": "Dropbox", "total": 4 * MiB + 1, "writes": [65536]}})
    ctx.extra["exhaustive"] = True
    ctx.assumptions += [
        "sha2 / md-5 crates and python hashlib compute SHA-256 / MD5 (the digest functions are parameters H of the theorems)",
        "the real 4 MiB block size is covered by the parametric theorem (any bs >= 1); the constant itself is pinned by the provider-hasher comparison",
    ]


def upload_part(ctx):
    """the hashers where they are used: a real `vsb upload` of a backup whose encrypted stream is longer than one 4 MiB block, through the
    real gpg, to an honest emulated provider (stores what it receives, computes its checksum by the provider's published definition -
    re-computed here with hashlib).  The stream reaches the hasher in the fragments the encryptor's pipe reads produce (gpg writes 15 + 1
    bytes, then 8 KiB blocks: fragments straddle every block end).  vsb compares its own checksum with the provider's: the upload must
    succeed, and a 'Checksum mismatch' is the property failing on this very stream."""
    import os
    import glob
    from vlib import build, cloud, runs, slevel
    from checks import C04
    build.ensure_vsb()
    build.ensure_vsbh()
    rng = ctx.rng
    thorough = ctx.tier == "thorough"
    plan = [("dropbox", 4 * MiB + 300000)]
    if thorough:
        plan += [("dropbox", 8 * MiB + 12345), ("dropbox", 4 * MiB - 2000), ("yandex", 4 * MiB + 300000), ("google", 4 * MiB + 300000)]
    for provider, big in plan:
        with slevel.Sandbox("c18") as sb:
            # a lean scene (no history driver: the run's manifest is not this check's subject): one backup of a tree with one incompressible file
            w = runs.World(sb, rng, 3, 3)
            top = os.path.join(w.src, w.items[0])
            w.write_file(os.path.join(top, "keeper"), b"k" * 300)
            w.write_file(os.path.join(top, "bulk.bin"), rng.randbytes(big))
            now = runs.BASE + 3600
            res = w.backup(now)
            if res["exit"] != 0:
                ctx.violation("upload-run", "correspondence upload-run no longer checks: the backup run preparing the upload exits %d: %s" % (res["exit"], res["errors"][:2]),
                              {"provider": provider, "file_size": big}, failing_input=False)
                return
            group = sorted(os.listdir(w.st))[-1]
            backups = sorted(b for b in os.listdir(os.path.join(w.st, group)) if not b.startswith("."))
            cloud.write_upload_config(sb, w.st, provider, passphrase="simple")
            base = {cloud.CLOUD_ROOT: {"type": "folder"}}
            gd = sb.path("gpgrec")
            os.makedirs(gd)
            emu = cloud.Emu(sb.path("emu"), init={"dropbox": base, "yandex": base, "google": base})
            env = {"PATH": C04.SHIM_DIR + ":" + os.environ["PATH"], "VERIF_GPG_DIR": gd, "VERIF_GPG_MODE": "tee", "VERIF_REAL_GPG": cloud.REAL_GPG}
            try:
                r = cloud.run_upload(sb, emu, now=now + 500, timeout=300, extra_env=env)
                r["blobs"] = {}
                for pth, e in emu.files(provider).items():
                    for x in (e if isinstance(e, list) else [e]):
                        if x.get("type") == "file":
                            r["blobs"].setdefault(pth, []).append(emu.object_bytes(x))
            finally:
                emu.stop()
                cloud.kill_agents(sb)
            r["outs"] = {f: open(f, "rb").read() for f in glob.glob(os.path.join(gd, "out.*"))}

            class sc:
                pass
            sc.backups = backups
            sc.final_path = staticmethod(lambda b: "%s/%s/%s.tar.gpg" % (cloud.CLOUD_ROOT, group, b))
            ctx.evaluations += 1
            ctx.count("upload." + provider)
            outs = sorted(r["outs"].values(), key=len)
            sizes = [len(o) for o in outs]
            for n in sizes:
                ctx.count("upload.stream." + ("over-one-block" if n > 4 * MiB else "within-one-block"))
            ctx.nontrivial.add(("upload", provider, tuple(sizes)))
            errs = slevel.errors_of(r["out"])
            label = "%s, encryptor output of %s bytes" % (provider, sizes)
            if any("hecksum" in e for e in errs):
                # which stream: the one whose object is missing under its final name
                missing = [b for b in sc.backups if not r["blobs"].get(sc.final_path(b))]
                want = [(dropbox_def(4 * MiB, o) if provider == "dropbox" else hashlib.md5(o).hexdigest()) for o in outs]
                ctx.violation("upload-checksum", "%s: vsb's checksum of the stream it sent differs from the provider's definition over those bytes "
                              "(definition: %s); the upload of %s fails with %r" % (label, [w[:16] + "..." for w in want], missing, [e for e in errs if "hecksum" in e][:1]),
                              {"provider": provider, "file_size": big, "stream_sizes": sizes, "output": r["out"][-800:]})
                return
            if r["timed_out"] or r["exit"] != 0 or errs:
                ctx.violation("upload-run", "correspondence upload-run no longer checks: %s: the undisturbed upload does not complete: exit %s, %s" % (label, r["exit"], errs[:2]),
                              {"provider": provider, "file_size": big, "output": r["out"][-800:]}, failing_input=False)
                return
            # the emulator's own arithmetic, checked against hashlib on the stored objects
            for b in sc.backups:
                for blob in r["blobs"].get(sc.final_path(b), []):
                    if blob not in outs:
                        ctx.violation("upload-run", "correspondence upload-run no longer checks: %s: a stored object of %d bytes is not an encryptor output" % (label, len(blob)),
                                      {"provider": provider, "file_size": big}, failing_input=False)
                        return


def replay(ctx, doc):
    if "case" not in doc:
        print("replay: re-run ./check C18 with the same VERIF_SEED; the upload (provider, file size, stream sizes) is in the replay file")
        return 0
    c = sexp.loads(doc["case"])
    r = impl.run_lines([c])[0]
    if c[0] == 1800:
        ok, why = ok_chunked(c, r)
    elif c[0] == 1801:
        ok, why = ok_md5(c, r)
    else:
        prov, total, seed, sizes = c[1]
        data = pattern_stream(seed, total)
        want = dropbox_def(4 * MiB, data) if prov == 0 else hashlib.md5(data).hexdigest()
        ok, why = obs_hex(c, r) == want, "provider hasher gives %s, definition %s" % (obs_hex(c, r), want)
    print(("holds: " if ok else "FAILS: ") + why)
    if not ok:
        ctx.violation("replay", why, {"case": doc["case"]})
    return 0
