"""C06 - cloud sync converges and never deletes what retention protects.
Tie: the real uploading::sync::sync_backups with the real Storage type (local side: real directories through the
Filesystem provider; cloud side: a mock provider with an in-memory namespace logging create / upload / delete) vs the
Gallina planner, exhaustively over a 3-group universe and sampled beyond, with create / upload faults."""
import itertools
import os

from vlib import sexp, build

STUB = os.path.join(build.VERIF, "tools", "stubgpg")


def window(local, cloud, mx):
    """The property's window, computed from its wording: g is in the window iff fewer than max non-empty groups of
    the union (either side) are newer than g."""
    union = {}
    for g, bs in local + cloud:
        union.setdefault(g, set()).update(bs)
    nonempty = sorted(g for g, bs in union.items() if bs)
    win = set()
    for g in union:
        newer = sum(1 for h in nonempty if h > g)
        if newer < mx:
            win.add(g)
    return union, win


def prop_ok(c, r):
    local, cloud, ok0, mx, cfail, ufail = c[1]
    if r[0] != 0:
        return False, "sync run failed in the harness: %s" % r
    acts, ok = r[1], bool(r[2])
    ld = {g: list(bs) for g, bs in local}
    cd = {g: list(bs) for g, bs in cloud}
    union, win = window(local, cloud, mx)
    desc = "local=%s cloud=%s max=%d ok0=%d create_fail=%s upload_fail=%s actions=%s" % (local, cloud, mx, ok0, cfail, ufail, acts)
    after = {g: set(bs) for g, bs in cd.items()}
    error_seen = not ok0
    ln = sum(1 for g, bs in local if bs)
    safeguard_trips = ln < 2 and len(cloud) > ln
    if safeguard_trips:
        error_seen = True
    for a in acts:
        if a[0] == 0:
            if a[1] in cd:
                return False, "creates a group the cloud already has (%s)" % desc
            if a[1] in cfail:
                error_seen = True
            else:
                after.setdefault(a[1], set())
        elif a[0] == 1:
            g, b = a[1], a[2]
            if b in cd.get(g, []):
                return False, "re-uploads backup %d of group %d which the cloud already holds (%s)" % (b, g, desc)
            if b not in ld.get(g, []):
                return False, "uploads backup %d of group %d which is not a local backup (%s)" % (b, g, desc)
            if [g, b] in ufail:
                error_seen = True
            elif g in after:
                after[g].add(b)
        else:
            g = a[1]
            if error_seen:
                return False, "deletes cloud group %d although the run had seen an error (%s)" % (g, desc)
            if g not in cd:
                return False, "deletes group %d which is not a cloud group (%s)" % (g, desc)
            if g in win:
                return False, "deletes group %d inside the retention window %s (%s)" % (g, sorted(win), desc)
            if any(g >= w for w in win):
                return False, "deletes group %d which is not older than the whole window %s (%s)" % (g, sorted(win), desc)
            after.pop(g, None)
    if ok != (not error_seen):
        return False, "returned ok=%s but errors seen=%s (%s)" % (ok, error_seen, desc)
    if ok:
        for g in win:
            for b in ld.get(g, []):
                if b not in after.get(g, set()):
                    return False, "error-free run, yet local backup %d of window group %d is not in the cloud afterwards (%s)" % (b, g, desc)
        for g, bs in cd.items():
            if g in win and not set(bs) <= after.get(g, set()):
                return False, "backups of window group %d disappeared from the cloud (%s)" % (g, desc)
        extra = [g for g in after if g not in win]
        if extra:
            return False, "error-free run leaves cloud groups %s outside the window %s (%s)" % (extra, sorted(win), desc)
    return True, ""


def cloud_after(c, r):
    local, cloud, ok0, mx, cfail, ufail = c[1]
    after = {g: set(bs) for g, bs in cloud}
    for a in r[1]:
        if a[0] == 0 and a[1] not in cfail:
            after.setdefault(a[1], set())
        elif a[0] == 1 and [a[1], a[2]] not in ufail and a[1] in after:
            after[a[1]].add(a[2])
        elif a[0] == 2:
            after.pop(a[1], None)
    return [[g, sorted(bs)] for g, bs in sorted(after.items())]


def describe(c):
    local, cloud, ok0, mx, cfail, ufail = c[1]
    return {"local": local, "cloud": cloud, "ok_before": ok0, "max_backup_groups": mx, "create_fail": cfail, "upload_fail": ufail}


def run(ctx):
    thorough = ctx.tier == "thorough"
    rng = ctx.rng
    env = {"PATH": STUB + ":" + os.environ.get("PATH", "")}
    ngroups = 4 if thorough else 3
    ctx.rule = ("exhaustive: %d group names x {absent, empty, 1 backup, 2 backups} on the local side x {absent, empty, 1 backup, 2 backups "
                "(one of them cloud-only)} on the cloud side x max_backup_groups 1..3 with ok=true; a sample with ok=false; a sample with an "
                "injected create / upload failure at every position; a second run on the resulting cloud for every error-free first run of a "
                "sample (must plan nothing); random larger universes. Non-trivial: at least one action planned or a deletion withheld; distinct "
                "by the whole case." % ngroups)
    gs = list(range(1, ngroups + 1))

    def lopts(g):
        return [None, [], [g * 100000 + 1], [g * 100000 + 1, g * 100000 + 2]]

    def copts(g):
        return [None, [], [g * 100000 + 1], [g * 100000 + 1, g * 100000 + 3]]

    cases = []
    combos = list(itertools.product(*[range(4) for _ in gs], *[range(4) for _ in gs]))
    if thorough and len(combos) > 20000:
        combos = rng.sample(combos, 20000)
    for combo in combos:
        local = [[g, lopts(g)[combo[i]]] for i, g in enumerate(gs) if lopts(g)[combo[i]] is not None]
        cloud = [[g, copts(g)[combo[len(gs) + i]]] for i, g in enumerate(gs) if copts(g)[combo[len(gs) + i]] is not None]
        for mx in (1, 2, 3):
            cases.append([600, [local, cloud, 1, mx, [], []]])
    base = list(cases)
    for c in rng.sample(base, 1500 if thorough else 500):
        cases.append([600, [c[1][0], c[1][1], 0, c[1][3], [], []]])
    for c in rng.sample(base, 4000 if thorough else 1200):
        local, cloud, _, mx, _, _ = c[1]
        ups = [[g, b] for g, bs in local for b in bs]
        cf = [g for g, bs in local if rng.random() < 0.3]
        uf = [u for u in ups if rng.random() < 0.3]
        cases.append([600, [local, cloud, 1, mx, cf, uf]])
    for _ in range(3000 if thorough else 500):
        n = rng.randrange(1, 8)
        names = sorted(rng.sample(range(1, 40), n))
        local = [[g, sorted(rng.sample(range(g * 100000, g * 100000 + 6), rng.randrange(0, 4)))] for g in names if rng.random() < 0.7]
        cloud = [[g, sorted(rng.sample(range(g * 100000, g * 100000 + 6), rng.randrange(0, 4)))] for g in names if rng.random() < 0.6]
        ups = [[g, b] for g, bs in local for b in bs]
        cases.append([600, [local, cloud, int(rng.random() < 0.85), rng.randrange(1, 5),
                            [g for g, _ in local if rng.random() < 0.1], [u for u in ups if rng.random() < 0.1]]])

    def nontrivial(c, m):
        if m[0] != 0:
            return None
        return sexp.dumps(c[1]) if (m[1] or not m[2]) else None

    mres, ires = ctx.correspond("sync-plan", cases, lambda c, m: m, lambda c, r: r, prop_ok, nontrivial=nontrivial,
                                describe=describe, env=env, shards=16)
    ctx.count("plans.with_delete", sum(1 for m in mres if any(a[0] == 2 for a in m[1])))
    ctx.count("plans.with_upload", sum(1 for m in mres if any(a[0] == 1 for a in m[1])))
    ctx.count("plans.with_create", sum(1 for m in mres if any(a[0] == 0 for a in m[1])))
    ctx.count("plans.ok_false", sum(1 for m in mres if not m[2]))
    ctx.count("plans.empty", sum(1 for m in mres if not m[1]))
    # second run: transfers nothing
    second = []
    idx = [i for i, r in enumerate(ires) if r[0] == 0 and r[2] == 1 and r[1]]
    for i in rng.sample(idx, min(len(idx), 3000 if thorough else 800)):
        c = cases[i]
        second.append([600, [c[1][0], cloud_after(c, ires[i]), 1, c[1][3], [], []]])

    def second_ok(c, r):
        if r[0] != 0:
            return False, "second run failed in the harness"
        if r[1]:
            return False, "a second run after an error-free first run still plans %s (%s)" % (r[1], describe(c))
        return True, ""

    ctx.correspond("second-run", second, lambda c, m: m, lambda c, r: r, second_ok,
                   nontrivial=lambda c, m: sexp.dumps(c[1]), describe=describe, env=env, shards=16)
    ctx.extra["exhaustive"] = not thorough or ngroups == 3
    ctx.notes.append("group / backup names are numbers in the model (order-isomorphic to the date strings the harness renders them to); "
                     "listing-level inputs (temporary objects, unexpected entries) enter through the ok flag here and through the listing model in C13")
    ctx.assumptions += ["gpg replaced by a pass-through stub for this planner-level check (the upload path itself is C04/C05)",
                        "BTreeMap/BTreeSet iteration is in key order"]


def replay(ctx, doc):
    from vlib import impl
    c = sexp.loads(doc.get("case") or doc.get("first_differing_case"))
    r = impl.run_lines([c], env={"PATH": STUB + ":" + os.environ.get("PATH", "")})[0]
    ok, why = prop_ok(c, r)
    print("holds" if ok else "FAILS: " + why)
    if not ok:
        ctx.violation("replay", why, {"case": sexp.dumps(c)})
    return 0
