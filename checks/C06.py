"""C06 - cloud sync converges and never deletes what retention protects.
Tie: the real uploading::sync::sync_backups with the real Storage type (local side: real directories through the
Filesystem provider; cloud side: a mock provider with an in-memory namespace logging create / upload / delete) vs the
Gallina planner, exhaustively over a 3-group universe and sampled beyond, with create / upload faults."""
import itertools
import os

from vlib import sexp, build

STUB = os.path.join(build.VERIF, "tools", "stubgpg")


def window(local, cloud, mx):
    """The property's window, computed from its wording: g is in the window iff fewer than max non-empty groups of
    the union (either side) are newer than g."""
    union = {}
    for g, bs in local + cloud:
        union.setdefault(g, set()).update(bs)
    nonempty = sorted(g for g, bs in union.items() if bs)
    win = set()
    for g in union:
        newer = sum(1 for h in nonempty if h > g)
        if newer < mx:
            win.add(g)
    return union, win


def prop_ok(c, r):
    local, cloud, ok0, mx, cfail, ufail = c[1]
    if r[0] != 0:
        return False, "sync run failed in the harness: %s" % r
    acts, ok = r[1], bool(r[2])
    ld = {g: list(bs) for g, bs in local}
    cd = {g: list(bs) for g, bs in cloud}
    union, win = window(local, cloud, mx)
    desc = "local=%s cloud=%s max=%d ok0=%d create_fail=%s upload_fail=%s actions=%s" % (local, cloud, mx, ok0, cfail, ufail, acts)
    after = {g: set(bs) for g, bs in cd.items()}
    error_seen = not ok0
    ln = sum(1 for g, bs in local if bs)
    safeguard_trips = ln < 2 and len(cloud) > ln
    if safeguard_trips:
        error_seen = True
    # "only when the run observed no error at all": an error anywhere in the run counts, also one that comes after the deletion
    error_anywhere = error_seen or any((a[0] == 0 and a[1] in cfail) or (a[0] == 1 and [a[1], a[2]] in ufail) for a in acts)
    for a in acts:
        if a[0] == 0:
            if a[1] in cd:
                return False, "creates a group the cloud already has (%s)" % desc
            if a[1] in cfail:
                error_seen = True
            else:
                after.setdefault(a[1], set())
        elif a[0] == 1:
            g, b = a[1], a[2]
            if b in cd.get(g, []):
                return False, "re-uploads backup %d of group %d which the cloud already holds (%s)" % (b, g, desc)
            if b not in ld.get(g, []):
                return False, "uploads backup %d of group %d which is not a local backup (%s)" % (b, g, desc)
            if [g, b] in ufail:
                error_seen = True
            elif g in after:
                after[g].add(b)
        else:
            g = a[1]
            if error_seen or error_anywhere:
                return False, "deletes cloud group %d although the run %s an error (%s)" % (g, "had seen" if error_seen else "goes on to see", desc)
            if g not in cd:
                return False, "deletes group %d which is not a cloud group (%s)" % (g, desc)
            if g in win:
                return False, "deletes group %d inside the retention window %s (%s)" % (g, sorted(win), desc)
            if any(g >= w for w in win):
                return False, "deletes group %d which is not older than the whole window %s (%s)" % (g, sorted(win), desc)
            after.pop(g, None)
    if ok != (not error_seen):
        return False, "returned ok=%s but errors seen=%s (%s)" % (ok, error_seen, desc)
    if ok:
        for g in win:
            for b in ld.get(g, []):
                if b not in after.get(g, set()):
                    return False, "error-free run, yet local backup %d of window group %d is not in the cloud afterwards (%s)" % (b, g, desc)
        for g, bs in cd.items():
            if g in win and not set(bs) <= after.get(g, set()):
                return False, "backups of window group %d disappeared from the cloud (%s)" % (g, desc)
        extra = [g for g in after if g not in win]
        if extra:
            return False, "error-free run leaves cloud groups %s outside the window %s (%s)" % (extra, sorted(win), desc)
    return True, ""


def cloud_after(c, r):
    local, cloud, ok0, mx, cfail, ufail = c[1]
    after = {g: set(bs) for g, bs in cloud}
    for a in r[1]:
        if a[0] == 0 and a[1] not in cfail:
            after.setdefault(a[1], set())
        elif a[0] == 1 and [a[1], a[2]] not in ufail and a[1] in after:
            after[a[1]].add(a[2])
        elif a[0] == 2:
            after.pop(a[1], None)
    return [[g, sorted(bs)] for g, bs in sorted(after.items())]


def describe(c):
    local, cloud, ok0, mx, cfail, ufail = c[1]
    return {"local": local, "cloud": cloud, "ok_before": ok0, "max_backup_groups": mx, "create_fail": cfail, "upload_fail": ufail}


def run(ctx):
    thorough = ctx.tier == "thorough"
    rng = ctx.rng
    env = {"PATH": STUB + ":" + os.environ.get("PATH", "")}
    ngroups = 4 if thorough else 3
    ctx.rule = ("exhaustive: %d group names x {absent, empty, 1 backup, 2 backups} on the local side x {absent, empty, 1 backup, 2 backups "
                "(one of them cloud-only)} on the cloud side x max_backup_groups 1..3 with ok=true; a sample with ok=false; a sample with an "
                "injected create / upload failure at every position; a second run on the resulting cloud for every error-free first run of a "
                "sample (must plan nothing); random larger universes. Non-trivial: at least one action planned or a deletion withheld; distinct "
                "by the whole case." % ngroups)
    gs = list(range(1, ngroups + 1))

    def lopts(g):
        return [None, [], [g * 100000 + 1], [g * 100000 + 1, g * 100000 + 2]]

    def copts(g):
        return [None, [], [g * 100000 + 1], [g * 100000 + 1, g * 100000 + 3]]

    cases = []
    combos = list(itertools.product(*[range(4) for _ in gs], *[range(4) for _ in gs]))
    if thorough and len(combos) > 20000:
        combos = rng.sample(combos, 20000)
    for combo in combos:
        local = [[g, lopts(g)[combo[i]]] for i, g in enumerate(gs) if lopts(g)[combo[i]] is not None]
        cloud = [[g, copts(g)[combo[len(gs) + i]]] for i, g in enumerate(gs) if copts(g)[combo[len(gs) + i]] is not None]
        for mx in (1, 2, 3):
            cases.append([600, [local, cloud, 1, mx, [], []]])
    base = list(cases)
    for c in rng.sample(base, 1500 if thorough else 500):
        cases.append([600, [c[1][0], c[1][1], 0, c[1][3], [], []]])
    for c in rng.sample(base, 4000 if thorough else 1200):
        local, cloud, _, mx, _, _ = c[1]
        ups = [[g, b] for g, bs in local for b in bs]
        cf = [g for g, bs in local if rng.random() < 0.3]
        uf = [u for u in ups if rng.random() < 0.3]
        cases.append([600, [local, cloud, 1, mx, cf, uf]])
    for _ in range(3000 if thorough else 500):
        n = rng.randrange(1, 8)
        names = sorted(rng.sample(range(1, 40), n))
        local = [[g, sorted(rng.sample(range(g * 100000, g * 100000 + 6), rng.randrange(0, 4)))] for g in names if rng.random() < 0.7]
        cloud = [[g, sorted(rng.sample(range(g * 100000, g * 100000 + 6), rng.randrange(0, 4)))] for g in names if rng.random() < 0.6]
        ups = [[g, b] for g, bs in local for b in bs]
        cases.append([600, [local, cloud, int(rng.random() < 0.85), rng.randrange(1, 5),
                            [g for g, _ in local if rng.random() < 0.1], [u for u in ups if rng.random() < 0.1]]])

    def nontrivial(c, m):
        if m[0] != 0:
            return None
        return sexp.dumps(c[1]) if (m[1] or not m[2]) else None

    mres, ires = ctx.correspond("sync-plan", cases, lambda c, m: m, lambda c, r: r, prop_ok, nontrivial=nontrivial,
                                describe=describe, env=env, shards=16)
    ctx.count("plans.with_delete", sum(1 for m in mres if any(a[0] == 2 for a in m[1])))
    ctx.count("plans.with_upload", sum(1 for m in mres if any(a[0] == 1 for a in m[1])))
    ctx.count("plans.with_create", sum(1 for m in mres if any(a[0] == 0 for a in m[1])))
    ctx.count("plans.ok_false", sum(1 for m in mres if not m[2]))
    ctx.count("plans.empty", sum(1 for m in mres if not m[1]))
    # second run: transfers nothing
    second = []
    idx = [i for i, r in enumerate(ires) if r[0] == 0 and r[2] == 1 and r[1]]
    for i in rng.sample(idx, min(len(idx), 3000 if thorough else 800)):
        c = cases[i]
        second.append([600, [c[1][0], cloud_after(c, ires[i]), 1, c[1][3], [], []]])

    def second_ok(c, r):
        if r[0] != 0:
            return False, "second run failed in the harness"
        if r[1]:
            return False, "a second run after an error-free first run still plans %s (%s)" % (r[1], describe(c))
        return True, ""

    ctx.correspond("second-run", second, lambda c, m: m, lambda c, r: r, second_ok,
                   nontrivial=lambda c, m: sexp.dumps(c[1]), describe=describe, env=env, shards=16)
    ctx.extra["exhaustive"] = not thorough or ngroups == 3
    # the same properties on the real binary, end to end
    if not ctx.has_failing_input():
        build.ensure_vsb()
        e2e(ctx, rng, 240 if thorough else 24)
        ctx.rule += (" End to end: %d generated (local storage, cloud state, limit, create / upload faults) cases per run, the real `vsb upload` with real "
                     "gpg against the provider emulator (Dropbox, Yandex Disk, Google Drive in turn): the actions it logs, its ok state and the cloud "
                     "namespace afterwards vs the planner model, and the property evaluated on what the run did." % (240 if thorough else 24))
    ctx.notes.append("group / backup names are numbers in the model (order-isomorphic to the date strings the harness renders them to); "
                     "listing-level inputs (temporary objects, unexpected entries) enter through the ok flag here and through the listing model in C13")
    ctx.assumptions += ["gpg replaced by a pass-through stub for this planner-level check (the upload path itself is C04/C05)",
                        "BTreeMap/BTreeSet iteration is in key order"]


# ---- end to end: the real `vsb upload` against the provider emulator, over the same kind of cases ----------------------------------------
import hashlib
import re

X_HASH = hashlib.sha512(b"x").hexdigest()
CHECK_RS = ("has an empty", "have no backups", "doesn't have any backup", "Failed to check last backup time", "Failed to determine a time")


def gname(g):
    return "2023.11.%02d" % (g % 28 + 1) if g < 28 else "2024.%02d.%02d" % (g // 28, g % 28 + 1)


def bname(g, b):
    k = b - g * 100000
    return "%s-%02d:%02d:00" % (gname(g), k // 60, k % 60)


def e2e_case(ctx, sb, n, provider, local, cloud, mx, faults, stray=()):
    """faults: list of ('create', g) / ('upload', g, b).  Returns a problem tuple (kind, text) or None."""
    from vlib import cloud as cl, model, slevel
    st = sb.path("st%d" % n)
    spec = {"groups": [{"name": gname(g), "backups": [
        {"name": bname(g, b), "manifest": [{"unique": True, "hash": X_HASH, "fp": [1, 2, 3], "size": 1, "path_hex": b"/p".hex()}],
         "entries": [{"type": "file", "path_hex": b"p".hex(), "data_hex": b"x".hex()}]} for b in bs]} for g, bs in local]}
    if "local" in stray:
        spec["junk"] = [{"name": "stray-file", "dir": False}]
    sb.write_storage(spec, st)
    cl.write_upload_config(sb, st, provider, max_groups=mx)
    ns = {cl.CLOUD_ROOT: {"type": "folder"}}
    for g, bs in cloud:
        ns["%s/%s" % (cl.CLOUD_ROOT, gname(g))] = {"type": "folder"}
        for b in bs:
            ns["%s/%s/%s.tar.gpg" % (cl.CLOUD_ROOT, gname(g), bname(g, b))] = {"type": "file", "content_hex": (b"cloud object %d" % b).hex()}
    if "cloud" in stray:
        ns["%s/stray-object.txt" % cl.CLOUD_ROOT] = {"type": "file", "content_hex": b"stray".hex()}
    for x in stray:
        # ("cloud-temp", g, b): a temporary object left by an interrupted upload of local backup b, which the cloud does not hold yet: it is not
        # a backup - the run must still upload b
        if isinstance(x, (list, tuple)) and x[0] == "cloud-temp":
            ns["%s/%s/.%s.tar.gpg" % (cl.CLOUD_ROOT, gname(x[1]), bname(x[1], x[2]))] = {"type": "file", "content_hex": b"half an upload".hex()}
    init = {"dropbox": ns, "yandex": ns, "google": ns}
    # the order of creations / uploads does not depend on the ok flag: plan once to place the faults
    plan = model.run_driver([[600, [local, cloud, 1, mx, [], []]]])[0]
    creates = [a[1] for a in plan[1] if a[0] == 0]
    uploads = [[a[1], a[2]] for a in plan[1] if a[0] == 1]
    deletes = [a[1] for a in plan[1] if a[0] == 2]
    dfail = [f[1] for f in faults if f[0] == "delete" and f[1] in deletes]
    cfail = [f[1] for f in faults if f[0] == "create" and f[1] in creates]
    ufail = [[f[1], f[2]] for f in faults if f[0] == "upload" and [f[1], f[2]] in uploads]
    routes = {"dropbox": ("dropbox.create_folder", "dropbox.upload_session.start"), "yandex": ("yandex.resources.mkdir", "yandex.resources.upload_href"),
              "google": ("google.upload.init_create", "google.upload.init_create")}[provider]      # Google creates folders through the upload route
    script = []
    # walk the plan in order, counting the requests each action makes on its route; an upload into a group whose creation failed is never
    # attempted and makes no request
    counters = {}
    for a in plan[1]:
        if a[0] == 0:
            counters[routes[0]] = counters.get(routes[0], 0) + 1
            if a[1] in cfail:
                script.append({"when": {"route": routes[0], "nth": counters[routes[0]]}, "fault": "http_5xx_json"})
        elif a[0] == 1 and a[1] not in cfail:
            counters[routes[1]] = counters.get(routes[1], 0) + 1
            if [a[1], a[2]] in ufail:
                script.append({"when": {"route": routes[1], "nth": counters[routes[1]]}, "fault": "http_5xx_json"})
    # a failing deletion of a stale group (it only happens when no error was seen before, so the plan's deletions are the real ones)
    droute = {"dropbox": "dropbox.delete", "yandex": "yandex.resources.delete", "google": "google.files.delete"}[provider]
    if not cfail and not ufail:
        for g in dfail:
            script.append({"when": {"route": droute, "nth": deletes.index(g) + 1}, "fault": "http_5xx_json"})
    else:
        dfail = []
    emu = cl.Emu(sb.path("emu%d" % n), init=init, script=script or None)
    try:
        r = cl.run_upload(sb, emu, now=1700000000 + 40 * 86400, timeout=120)
        files = emu.files(provider)
        reqs = emu.requests()
    finally:
        emu.stop()
    out = r["out"]
    if r["timed_out"]:
        return ("violation", "the upload run did not terminate")
    # observed actions, from the tool's own log
    acts = []
    rev_g = {gname(g): g for g in set([g for g, _ in local] + [g for g, _ in cloud])}
    for line in out.split("\n"):
        m = re.search(r'Creating "([^"]+)" backup group', line)
        if m and m.group(1) in rev_g:
            acts.append([0, rev_g[m.group(1)]])
        m = re.search(r'Uploading "[^"]*/([^/"]+)/([^/"]+)" backup', line)
        if m and m.group(1) in rev_g:
            g = rev_g[m.group(1)]
            bn = [b for gg, bs in local if gg == g for b in bs if bname(g, b) == m.group(2)]
            if bn:
                acts.append([1, g, bn[0]])
        m = re.search(r'Deleting "([^"]+)" backup group', line)
        if m and m.group(1) in rev_g:
            acts.append([2, rev_g[m.group(1)]])
    head = out.split("Syncing...")[0]
    tail_parts = out.split("Syncing...")[1:] or [""]
    sync_part = tail_parts[0].rsplit("Checking backups on", 1)[0]
    ok0 = int(not [l for l in slevel.errors_of(head) if not any(p in l for p in CHECK_RS)])
    # sync.rs logs a failed group deletion but does not clear its ok flag: such lines do not count
    ok_obs = int(bool(ok0) and not [l for l in slevel.errors_of(sync_part) if "Failed to delete" not in l])
    if dfail and not [l for l in slevel.errors_of(sync_part) if "Failed to delete" in l] and ok0:
        return ("violation", "real `vsb upload`: the deletion of cloud group(s) %s failed but no error is reported" % dfail)
    # observed cloud listing (final names only)
    obs = {}
    root = cl.CLOUD_ROOT + "/"
    for path, e in files.items():
        if not path.startswith(root):
            continue
        rel = path[len(root):].split("/")
        ents = e if isinstance(e, list) else [e]
        if len(rel) == 1 and rel[0] in rev_g and any(x.get("type") == "folder" for x in ents):
            obs.setdefault(rev_g[rel[0]], set())
        if len(rel) == 2 and rel[0] in rev_g and rel[1].endswith(".tar.gpg") and not rel[1].startswith("."):
            g = rev_g[rel[0]]
            for b in range(g * 100000, g * 100000 + 10):
                if bname(g, b) + ".tar.gpg" == rel[1]:
                    obs.setdefault(g, set()).add(b)
    obs_list = [[g, sorted(bs)] for g, bs in sorted(obs.items())]
    case = [600, [local, cloud, ok0, mx, cfail, ufail]]
    m = model.run_driver([case])[0]
    desc = "provider=%s local=%s cloud=%s max=%d create_fail=%s upload_fail=%s ok_before=%d" % (provider, local, cloud, mx, cfail, ufail, ok0)
    # the property, on what the real run did
    good, why = prop_ok(case, [0, acts, ok_obs])
    if not good:
        return ("violation", "real `vsb upload`: " + why)
    exp_after = cloud_after(case, m)
    if dfail and m[2]:
        # the groups whose deletion failed are still there, as they were
        keep = {g: bs for g, bs in cloud if g in dfail}
        exp_after = sorted([x for x in exp_after if x[0] not in keep] + [[g, sorted(bs)] for g, bs in keep.items()])
    if acts != m[1] or ok_obs != m[2]:
        return ("tie", "correspondence upload-run-vs-planner no longer checks: actions %s ok=%d, the model plans %s ok=%d (%s)" % (acts, ok_obs, m[1], m[2], desc))
    if obs_list != exp_after:
        # decide whether the difference is itself a violation: a window group lost a backup, or a protected group disappeared
        union, win = window(local, cloud, mx)
        before = {g: set(bs) for g, bs in cloud}
        for g in before:
            if g in win and not before[g] <= obs.get(g, set()):
                return ("violation", "real `vsb upload`: backups of window group %d disappeared from the cloud: %s -> %s (%s)" % (g, sorted(before[g]), sorted(obs.get(g, [])), desc))
        return ("tie", "correspondence cloud-namespace-vs-planner no longer checks: the cloud holds %s, the model predicts %s (%s)" % (obs_list, exp_after, desc))
    return None


def e2e(ctx, rng, ncases):
    from vlib import slevel, cloud as cl
    providers = ["dropbox", "yandex", "google"]
    with slevel.Sandbox("c06e") as sb:
        try:
            # targeted: a fully synced window, one stale cloud group outside it; with a stray entry on either side the stale group must
            # stay, without one it must go (positive control)
            k = 0
            for stray in (["local"], ["cloud"], []):
                local = [[5, [500001]], [6, [600001, 600002]]]
                cloud = [[1, [100001]], [5, [500001]], [6, [600001, 600002]]]
                provider = providers[k % 3]
                pr = e2e_case(ctx, sb, 1000 + k, provider, local, cloud, 2, [], stray)
                ctx.evaluations += 1
                ctx.count("e2e.targeted.stale-group-%s" % ("with-stray-" + stray[0] if stray else "clean"))
                ctx.nontrivial.add(("e2e-targeted", provider, tuple(stray)))
                if pr:
                    ctx.violation("e2e", pr[1], {"provider": provider, "local": local, "cloud": cloud, "max": 2, "faults": [], "stray": stray},
                                  failing_input=(pr[0] == "violation"))
                    return
                k += 1
            # targeted: the cloud group holds the first backup and the TEMPORARY object of an interrupted upload of the second one: the run must
            # upload the second backup all the same (a temporary object is not a backup), and a second run has nothing left to do
            for provider in (providers if ctx.tier == "thorough" else [providers[ctx.rng.randrange(3)], "yandex"]):
                local = [[6, [600001, 600002]]]
                cloud = [[6, [600001]]]
                pr = e2e_case(ctx, sb, 1100 + k, provider, local, cloud, 2, [], [("cloud-temp", 6, 600002)])
                ctx.evaluations += 1
                ctx.count("e2e.targeted.cloud-temporary-of-missing-backup")
                ctx.nontrivial.add(("e2e-targeted-temp", provider))
                if pr:
                    ctx.violation("e2e", pr[1] + " [the cloud group also held the temporary object of an interrupted upload of backup 600002]",
                                  {"provider": provider, "local": local, "cloud": cloud, "max": 2, "faults": [], "stray": [["cloud-temp", 6, 600002]]},
                                  failing_input=(pr[0] == "violation"))
                    return
                k += 1
            for n in range(ncases):
                gs = sorted(rng.sample(range(1, 12), rng.randrange(1, 5)))
                local = [[g, sorted(rng.sample(range(g * 100000 + 1, g * 100000 + 5), rng.randrange(1, 3)))] for g in gs if rng.random() < 0.75]
                cloud = []
                for g in gs:
                    if rng.random() < 0.6:
                        lb = [b for gg, bs in local if gg == g for b in bs]
                        pool = lb + [g * 100000 + 7]
                        cloud.append([g, sorted(set(rng.sample(pool, rng.randrange(0, len(pool) + 1))))])
                if rng.random() < 0.3:
                    extra = rng.choice([0, 13, 14])
                    if extra not in gs and extra > 0:
                        cloud.append([extra, [extra * 100000 + 1]])
                        cloud.sort()
                mx = rng.randrange(1, 4)
                faults = []
                if rng.random() < 0.4:
                    for g, bs in local:
                        if rng.random() < 0.3:
                            faults.append(("create", g))
                        for b in bs:
                            if rng.random() < 0.25:
                                faults.append(("upload", g, b))
                elif rng.random() < 0.3:
                    faults = [("delete", g) for g, _ in cloud if rng.random() < 0.6]
                provider = providers[n % 3]
                # an unexpected entry on either side makes the listing report an error: the run starts with ok = false and must delete nothing
                stray = [side for side in ("local", "cloud") if rng.random() < 0.15]
                for side in stray:
                    ctx.count("e2e.stray." + side)
                pr = e2e_case(ctx, sb, n, provider, local, cloud, mx, faults, stray)
                ctx.evaluations += 1
                ctx.count("e2e.provider." + provider)
                ctx.count("e2e.with_faults" if faults else "e2e.fault_free")
                ctx.nontrivial.add(("e2e", provider, repr(local), repr(cloud), mx, repr(faults)))
                if pr:
                    ctx.violation("e2e", pr[1], {"provider": provider, "local": local, "cloud": cloud, "max": mx, "faults": [list(f) for f in faults], "stray": stray},
                                  failing_input=(pr[0] == "violation"))
                    return
                import shutil
                shutil.rmtree(sb.path("emu%d" % n), ignore_errors=True)
                shutil.rmtree(sb.path("st%d" % n), ignore_errors=True)
        finally:
            cl.kill_agents(sb)


def replay(ctx, doc):
    from vlib import impl
    c = sexp.loads(doc.get("case") or doc.get("first_differing_case"))
    r = impl.run_lines([c], env={"PATH": STUB + ":" + os.environ.get("PATH", "")})[0]
    ok, why = prop_ok(c, r)
    print("holds" if ok else "FAILS: " + why)
    if not ok:
        ctx.violation("replay", why, {"case": sexp.dumps(c)})
    return 0
