"""C02 - every retained backup is recoverable from its own group alone.
Tie: histories of real `vsb backup` runs (unchanged files across a rotation, content moving between paths, content
disappearing and reappearing, same-identity size changes, a corrupted manifest in the middle of a group); after every
run the independently decoded manifest of the new backup is compared with the Gallina model of the run
(Dedup.new_backup on the group's decoded manifests and the files the run read), and the property itself - every
non-empty extern line resolves to an earlier unique line of its own group - is evaluated on every backup present."""
import os

from vlib import build, runs, slevel


def run(ctx):
    thorough = ctx.tier == "thorough"
    rng = ctx.rng
    build.ensure_vsb()
    build.ensure_vsbh()
    nhist, nruns = (80, 12) if thorough else (8, 8)
    ctx.rule = ("%d histories of %d runs: small limits (1..3 x 1..3) so that groups rotate while files stay unchanged; edits include modify, "
                "touch, rename, delete, add, type change, content swapped between paths, same content rewritten, and - in a third of the "
                "histories - content changed with unchanged (device, inode, mtime) and a different size; in a quarter of the histories the "
                "manifest of a middle backup is overwritten with garbage before later runs. Compared: the new backup's manifest and archive "
                "vs the model; evaluated: every non-empty extern line of every backup present resolves inside its own group. Non-trivial: a "
                "published run; distinct by (clock, tree size, edits, group sizes)." % (nhist, nruns))
    for h in range(nhist):
        with slevel.Sandbox("c02") as sb:
            H = runs.History(ctx, sb, rng, "C02", rng.randrange(1, 4), rng.randrange(1, 4), nitems=rng.choice([1, 2]),
                             identity_changes=(h % 3 != 0))
            H.w.populate(nfiles=8)
            corrupt_at = rng.randrange(2, nruns) if h % 4 == 1 else None
            for i in range(nruns):
                if i == corrupt_at:
                    la, _ = runs.listing(H.dec)
                    cands = [(g, b) for g, fin, _, _ in la for b in fin[:-1]]
                    if cands:
                        g, b = rng.choice(cands)
                        with open(os.path.join(H.w.st, g, b, "metadata.zst"), "wb") as f:
                            f.write(b"garbage, not zstd")
                        H.dec = H.w.decode()
                        H.debris_seeded = True
                        H.unreadable = (g, b)
                        H.log.append({"corrupted manifest": "%s/%s" % (g, b)})
                        ctx.count("history.with-unreadable-manifest")
                H.run()
                if len(ctx.violations) >= 3:
                    break
            H.report_diffs("backup-run")
            if len(ctx.samples) < 3:
                ctx.sample({"history": H.log[:5]})
        if ctx.violations:
            break
    # targeted: the only unique record of some content sits in a backup whose manifest becomes unreadable; a later backup holds an extern
    # record for it; then the content shows up under a new path - it must be stored again, an extern record vouches for nothing
    if not ctx.has_failing_input():
        with slevel.Sandbox("c02") as sb:
            H = runs.History(ctx, sb, rng, "C02", 3, 6, identity_changes=True)
            H.advance = lambda: None
            H.now += 3600
            H.w.populate(nfiles=4)
            top = os.path.join(H.w.src, H.w.items[0])
            blob = bytes((i * 11 + 5) % 251 for i in range(20000))
            H.w.write_file(os.path.join(top, "a.bin"), blob)
            for step in range(3):
                if step == 2:
                    la, _ = runs.listing(H.dec)
                    g, fin = la[-1][0], la[-1][1]
                    with open(os.path.join(H.w.st, g, fin[0], "metadata.zst"), "wb") as f:
                        f.write(b"garbage, not zstd")
                    H.dec = H.w.decode()
                    H.debris_seeded = True
                    H.unreadable = (g, fin[0])
                    H.log.append({"corrupted manifest": "%s/%s" % (g, fin[0])})
                    H.w.write_file(os.path.join(top, "b.bin"), blob)
                    ctx.count("targeted.unique-record-lost-then-content-at-new-path")
                H.now += 61
                H.run(nedits=0)
                if ctx.violations:
                    break
            H.report_diffs("backup-run")
    # targeted: a file that was EMPTY in the previous backup of the group is filled in place with its mtime preserved (pinned build
    # timestamps, rsync -t --inplace): an empty file's record stores nothing, so the record must not be reused for the filled file
    if not ctx.has_failing_input():
        with slevel.Sandbox("c02") as sb:
            H = runs.History(ctx, sb, rng, "C02", 3, 6, identity_changes=False)
            H.advance = lambda: None
            H.now += 3600
            H.w.populate(nfiles=4)
            p = os.path.join(H.w.src, H.w.items[0], "report.dat")
            H.w.write_file(p, b"")
            H.now += 61
            H.run(nedits=0)
            st = os.lstat(p)
            with open(p, "r+b") as f:
                f.write(b"filled in place, the mtime is pinned\n" * 2)
            H.w.remember(open(p, "rb").read())
            os.utime(p, ns=(st.st_atime_ns, st.st_mtime_ns))
            ctx.count("targeted.empty-file-filled-with-preserved-mtime")
            for _ in range(2):
                H.now += 61
                H.run(nedits=0)
                if ctx.violations:
                    break
            if not ctx.violations:
                H.restore_all()
            H.report_diffs("backup-run")
    # targeted: a second run inside the same second as the previous one (cron + a manual run, a retry loop): its backup name collides with the
    # one just published. Whatever the run does about it, every backup present afterwards still resolves its extern records inside its
    # group, and the next run (a second later) keeps that
    if not ctx.has_failing_input():
        with slevel.Sandbox("c02") as sb:
            H = runs.History(ctx, sb, rng, "C02", 3, 6, identity_changes=False)
            H.advance = lambda: None
            H.now += 3600
            H.w.populate(nfiles=6)
            for variant in ("first of the group", "second of the group"):
                H.now += 61
                H.run(nedits=0)
                name = H.name_of_now()
                edits = [H.w.edit(False) for _ in range(2)] if variant.startswith("second") else []
                res = H.w.backup(H.now)
                ctx.evaluations += 1
                ctx.count("targeted.same-second-collision")
                H.dec = H.w.decode()
                H.log.append({"colliding run at": name, "edits": edits, "exit": res["exit"], "errors": res["errors"][:2]})
                for g in H.dec["groups"]:
                    uniques = set()
                    for e in g["entries"]:
                        if not runs.recognised(e):
                            continue
                        ls = runs.parse_manifest(e)
                        if ls is None:
                            H.violation("C02", "after a second run at %s (%s) the manifest of %s/%s is unreadable" % (name, variant, g["name"], e["name"]))
                            break
                        here = set()
                        for l in ls:
                            if l["unique"]:
                                here.add(l["hash"])
                            elif l["size"] != 0 and l["hash"] not in uniques and l["hash"] not in here:
                                H.violation("C02", "after a second run at %s (%s, exit %d) %s/%s records %r as extern (%d bytes) but no earlier unique "
                                            "record of its hash exists in the group" % (name, variant, res["exit"], g["name"], e["name"], l["path"], l["size"]))
                                break
                        uniques |= here
                    if ctx.violations:
                        break
                if ctx.violations:
                    break
            if not ctx.violations:
                H.now += 1
                H.run(nedits=1)
            H.report_diffs("backup-run")
    # targeted: a run in which reading a NEW file fails while its bytes are being archived (second pass), with further new files behind it in
    # the walk; then a clean run.  Whatever the faulted run does, afterwards every non-empty extern record of every backup present must refer
    # to bytes that an earlier unique record's archive entry really holds (not merely to a manifest line)
    if not ctx.has_failing_input():
        from vlib import aux
        with slevel.Sandbox("c02") as sb:
            H = runs.History(ctx, sb, rng, "C02", 3, 6, identity_changes=False)
            H.advance = lambda: None
            H.now += 3600
            H.w.populate(nfiles=4)
            H.now += 61
            H.run(nedits=0)
            top = os.path.join(H.w.src, H.w.items[0])
            # five new files; the victim is the one the walk reaches first (directory order is the file system's), the others lie behind it
            for k in range(5):
                H.w.write_file(os.path.join(top, "new-%d.bin" % k), bytes((i * (7 + 2 * k) + k) % 251 for i in range(3000 + 1000 * k)))
            order = [n for n in os.listdir(top) if n.startswith("new-")]
            victim = os.path.join(top, order[0])
            slog = sb.path("sched-c02.log")
            env = {"LD_PRELOAD": aux.ensure_faketime() + ":" + aux.ensure_sched(), "VERIF_SCHED": os.path.realpath(victim) + "|read,2,fail,0", "VERIF_SCHED_LOG": slog}
            H.now += 61
            res = H.w.backup(H.now, env=env)
            fired = os.path.exists(slog) and "fail" in open(slog).read()
            ctx.evaluations += 1
            ctx.count("targeted.read-error-while-archiving" + ("" if fired else ".not-reached"))
            H.log.append({"run with a read error in the archiving pass of": order[0], "new files behind it": order[1:], "exit": res["exit"], "errors": res["errors"][:2]})
            H.now += 61
            res3 = H.w.backup(H.now)
            ctx.evaluations += 1
            H.log.append({"clean run": H.name_of_now(), "exit": res3["exit"]})
            os.environ["VSBH_FULL_DATA"] = "1"
            try:
                dec = H.w.decode()
            finally:
                os.environ.pop("VSBH_FULL_DATA", None)
            for g in dec["groups"]:
                held = set()
                for e in g["entries"]:
                    if not runs.recognised(e):
                        continue
                    ls = runs.parse_manifest(e)
                    ents = e.get("archive", {}).get("entries")
                    if ls is None or ents is None:
                        H.violation("C02", "after a run whose archiving pass hit a read error, %s/%s does not decode" % (g["name"], e["name"]))
                        break
                    byp = {bytes.fromhex(x["path_hex"]): x for x in ents if x.get("type") == "file" and "error" not in x}
                    here = set()
                    for l in ls:
                        x = byp.get(bytes(l["path"]).lstrip(b"/"))
                        if l["unique"]:
                            if x is not None and x.get("size") == l["size"] and x.get("sha512") == l["hash"]:
                                here.add(l["hash"])
                        elif l["size"] != 0 and l["hash"] not in held and l["hash"] not in here:
                            H.violation("C02", "after a run whose archiving pass hit a read error (exit %d) and a clean run (exit %d): %s/%s records %r as extern (%d bytes) "
                                        "but no earlier archive entry of the group holds those bytes" % (res["exit"], res3["exit"], g["name"], e["name"], bytes(l["path"]), l["size"]))
                            break
                    held |= here
                    if ctx.violations:
                        break
                if ctx.violations:
                    break
    # content that changes between the two read passes of a new file, with a copy of the old content archived later in the same run: the
    # hash of the first pass must not become something an extern line can refer to
    if not ctx.has_failing_input():
        from vlib import dynrun

        def focus(size, where, previous, rules):
            return size >= 5000 and previous != "shortcut" and rules[0][0] == "read" and any(a in ("rewrite", "regrow", "append") for _, _, a, _ in rules)
        dynrun.sweep(ctx, rng, 120 if ctx.tier == "thorough" else 24, {"C02"}, focus=focus)
        ctx.notes.append("files rewritten during the run: scheduled concurrent-writer runs (vlib/dynrun.py) with a copy of the victim's original content in a "
                         "later item; clause 'every extern line refers to content a unique record of the group stores' and restorability")
    ctx.traces = ctx.evaluations
    ctx.assumptions += ["SHA-512 is collision-free on the generated contents (the model's hash is the content itself)",
                        "directory order seen by the run equals the order os.listdir reports for the unchanged directory"]


def replay(ctx, doc):
    if "rules" in doc:
        from vlib import dynrun
        return dynrun.replay_case(ctx, doc, {"C02"})
    print("replay: histories are regenerated deterministically from VERIF_SEED; the failing history is in the replay file")
    return 0
