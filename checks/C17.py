"""C17 - ciphertext is split into request bodies without loss, overlap or oversize.
Tie: the real stream_splitter::split (threads, rendezvous channels) driven by a scripted producer and consumer
vs the Gallina model of splitter() on the same message list, maximum size and receiver budget."""
import itertools

from vlib import sexp

SEND_KINDS = (0, 1, 3, 4)


def truncate_after_sends(events, k):
    out = []
    n = 0
    for e in events:
        if n >= k:
            break
        out.append(e)
        if e[0] in SEND_KINDS:
            n += 1
    return out


def canon(events, res):
    ev = list(events)
    if res == 1:
        while ev and ev[-1] == [2]:
            ev.pop()
    return ev


def expected(case, m):
    if m[0] != 0:
        return ["model-error", m]
    mx, bd, msgs = case[1][0], case[1][1], case[1][2]
    ev, r_full, r_lim = m[1], m[2], m[3]
    if bd:
        sends = sum(1 for e in ev if e[0] in SEND_KINDS)
        if bd[0] < sends:
            return [truncate_after_sends(ev, bd[0]), 2 if r_lim == 2 else r_lim]
        return [canon(ev, r_full), r_full]
    return [canon(ev, r_full), r_full]


def observed(case, r):
    if r[0] != 0:
        return ["impl-error", r]
    return [canon(r[1], r[2]), r[2]]


def bodies_of(events):
    bodies = []
    cur = None
    for e in events:
        if e[0] == 0:
            if cur is not None:
                return None, "a body was announced while another is open"
            cur = [e[1], []]
        elif e[0] == 1:
            if cur is None:
                return None, "chunk outside a body"
            cur[1] += e[1]
        elif e[0] == 2:
            if cur is None:
                return None, "close without a body"
            bodies.append(cur)
            cur = None
    if cur is not None:
        bodies.append(cur)
    return bodies, None


def prop_ok(case, r):
    mx, bd, msgs = case[1][0], case[1][1], case[1][2]
    if r[0] == 254 and r[1] == 1:
        return False, "the splitter and its consumer are blocked (no answer within 5 s) instead of terminating"
    if r[0] == 254:
        return True, ""       # not run: the harness stopped after three blocked cases (those are reported)
    if r[0] != 0:
        return False, "harness reported %s" % r
    events, res = r[1], r[2]
    payload = []
    term = None
    extra = False
    for m in msgs:
        if term is not None:
            extra = True
            break
        if m[0] == 0:
            payload += m[1]
        else:
            term = m
    terms = [e for e in events if e[0] in (3, 4)]
    desc = "max=%s blocks=%s terminal=%s budget=%s" % (mx[0] if mx else "unlimited", [len(m[1]) for m in msgs if m[0] == 0],
                                                     {None: "hang-up", 1: "checksum", 2: "error"}[term[0] if term else None], bd[0] if bd else "all")
    if len(terms) > 1:
        return False, "more than one terminal event (%s): %s" % (desc, terms)
    if terms and events[-1] != terms[0]:
        return False, "events after the terminal one (%s)" % desc
    if bd:
        # a receiver that stops early: the sending side must fail (or had already delivered everything)
        if res == 2 or terms:
            return True, ""
        if res in (1, 3) and term is None:
            return True, ""
        return False, "receiver stopped after %d messages but the splitter returned %d (%s)" % (bd[0], res, desc)
    bodies, err = bodies_of(events)
    if err:
        return False, "%s (%s)" % (err, desc)
    data = [b for _, body in [(o, b) for o, b in bodies] for b in body]
    if data != payload:
        return False, "concatenated bodies differ from the stream (%s): got %d bytes, stream has %d" % (desc, len(data), len(payload))
    off = 0
    for i, (o, b) in enumerate(bodies):
        if o != off:
            return False, "body %d announced at offset %d, %d bytes precede it (%s)" % (i, o, off, desc)
        if not b:
            return False, "empty body %d (%s)" % (i, desc)
        if mx and len(b) > mx[0]:
            return False, "body %d has %d bytes, maximum is %d (%s)" % (i, len(b), mx[0], desc)
        if mx and i < len(bodies) - 1 and len(b) != mx[0]:
            return False, "body %d is not the last one and has %d bytes instead of %d (%s)" % (i, len(b), mx[0], desc)
        off += len(b)
    if not mx and len(bodies) > 1:
        return False, "unlimited size but %d bodies (%s)" % (len(bodies), desc)
    if term is None:
        if terms or res != 1:
            return False, "sender hang-up must fail without finalisation: result %d, terminal %s (%s)" % (res, terms, desc)
    elif term[0] == 1:
        if not terms or terms[0] != [3, len(payload), term[1]]:
            return False, "finalisation should carry total %d and the checksum: %s (%s)" % (len(payload), terms, desc)
        if res != (3 if extra else 0):
            return False, "result %d (%s)" % (res, desc)
    else:
        if not terms or terms[0] != [4, term[1]]:
            return False, "upstream error must end the sequence instead of the finalisation: %s (%s)" % (terms, desc)
        if res != (3 if extra else 0):
            return False, "result %d (%s)" % (res, desc)
    return True, ""


def describe(c):
    mx, bd, msgs = c[1][0], c[1][1], c[1][2]
    return {"max": mx[0] if mx else None, "receiver_budget": bd[0] if bd else None,
            "messages": [["payload", len(m[1])] if m[0] == 0 else (["checksum"] if m[0] == 1 else ["error", m[1]]) for m in msgs]}


def block_bytes(sizes, salt=0):
    out = []
    k = salt
    for s in sizes:
        out.append([(k + i * 7 + 1) % 256 for i in range(s)])
        k += s * 13 + 1
    return out


def mk(mx, bd, sizes, term, extra=False, delay=0):
    msgs = [[0, b] for b in block_bytes(sizes)]
    if term == "eof":
        msgs.append([1, [1, 2, 3, len(sizes) % 256]])
    elif term == "err":
        msgs.append([2, 40 + len(sizes)])
    if extra:
        msgs.append([0, [9]])
    c = [1700, [[mx] if mx else [], [bd] if bd is not None else [], msgs]]
    if delay:
        c[1].append(delay)
    return c


def run(ctx):
    thorough = ctx.tier == "thorough"
    nblocks, maxsize = (5, 6) if thorough else (3, 5)
    ctx.rule = ("exhaustive: every sequence of up to %d blocks of sizes 1..%d x maximum sizes {1,2,3, a block size, divisors of the total, "
                "the total, unlimited} x terminal {checksum, upstream error, sender hang-up} at the end, plus an error / hang-up after "
                "every prefix, an extra message after the terminal one, empty payload blocks, and for a sample of cases a receiver that "
                "stops after k messages for every k; random larger cases with injected scheduling jitter. Non-trivial: at least one "
                "non-empty block; distinct by (max, budget, block sizes, terminal)." % (nblocks, maxsize))
    cases = []
    seqs = [()]
    for n in range(1, nblocks + 1):
        seqs += list(itertools.product(range(1, maxsize + 1), repeat=n))
    if thorough and len(seqs) > 4000:
        # keep it exhaustive up to 4 blocks, sample the 5-block sequences
        five = [s for s in seqs if len(s) == 5]
        seqs = [s for s in seqs if len(s) < 5] + ctx.rng.sample(five, 2500)
    for sizes in seqs:
        total = sum(sizes)
        maxes = {1, 2, 3, None, total or 1}
        maxes |= set(sizes)
        maxes |= {d for d in range(1, total + 1) if total % d == 0 and d <= 8}
        for mx in sorted(maxes, key=lambda x: (x is None, x)):
            for term in ("eof", "err", "hang"):
                cases.append(mk(mx, None, sizes, term))
        # a failure after every prefix is the same as a shorter sequence with err/hang; extra message:
        cases.append(mk(2, None, sizes, "eof", extra=True))
        cases.append(mk(None, None, sizes, "err", extra=True))
    # empty payload blocks
    for sizes in [(0,), (0, 0), (2, 0, 2), (0, 3), (3, 0)]:
        for mx in (1, 2, 3, None):
            for term in ("eof", "err", "hang"):
                cases.append(mk(mx, None, sizes, term))
    # receivers that stop early, every k
    sample = [s for s in seqs if 1 <= len(s) <= 3]
    for sizes in ctx.rng.sample(sample, min(len(sample), 120 if thorough else 40)):
        for mx in (1, 2, sum(sizes), None):
            for k in range(0, 2 * sum(sizes) + 4):
                cases.append(mk(mx, k, sizes, ctx.rng.choice(["eof", "err", "hang"])))
    # random larger, with jitter
    for _ in range(3000 if thorough else 300):
        n = ctx.rng.randrange(1, 8)
        sizes = tuple(ctx.rng.choice([1, 2, 3, 5, 8, 13, 64, 100]) for _ in range(n))
        mx = ctx.rng.choice([1, 2, 3, 7, 8, 64, 100, sum(sizes), sum(sizes) + 1, None])
        bd = ctx.rng.choice([None, None, None, ctx.rng.randrange(0, 30)])
        cases.append(mk(mx, bd, sizes, ctx.rng.choice(["eof", "eof", "err", "hang"]), extra=ctx.rng.random() < 0.1,
                        delay=ctx.rng.randrange(1, 1 << 30)))
    for c in cases:
        t = c[1][2][-1][0] if c[1][2] else None
        ctx.count("terminal.%s" % {0: "hang-up", 1: "checksum", 2: "error", None: "hang-up"}[t])
        ctx.count("max.%s" % ("unlimited" if not c[1][0] else "limited"))
        ctx.count("receiver.%s" % ("stops-early" if c[1][1] else "drains"))
    ctx.correspond("splitter", cases, expected, observed, prop_ok,
                   nontrivial=lambda c, m: sexp.dumps(c[1][:3]) if any(x[0] == 0 and x[1] for x in c[1][2]) else None,
                   describe=describe)
    ctx.extra["exhaustive"] = True
    ctx.assumptions += [
        "Rust std::sync::mpsc rendezvous channels behave as the model's send: a send succeeds iff the receiver still exists",
        "thread interleavings are varied only by injected jitter; the splitter itself is sequential and deterministic given the message list",
        "max = Some 0 is not a provider value: the model runs out of fuel (the loop would emit empty bodies forever) and is not generated",
    ]


def replay(ctx, doc):
    from vlib import impl
    c = sexp.loads(doc["case"])
    r = impl.run_lines([c])[0]
    ok, why = prop_ok(c, r)
    print(("holds" if ok else "FAILS: " + why))
    if not ok:
        ctx.violation("replay", why, {"case": doc["case"]})
    return 0
