"""C01 - restoring any retained backup reproduces the backed-up tree exactly.
Tie: histories of real `vsb backup` runs (several items, filters, edits that always change the identity of changed
files) under a fake clock with small limits so that groups rotate and old groups are deleted; every retained backup
is restored with the real `vsb restore` and compared - paths, types, bytes, link targets, permission bits, owners,
mtimes - with what its run read; the restore model (Restore2.exec on the independently decoded storage) and the run
model (Dedup.new_backup, rotation) are compared with the implementation along the way."""
import os
import stat

from vlib import build, runs, slevel

FILTERS = [None, ["- *.o", "+ **"], ["- d1/**", "- **/.hid"], ["+ d2/*.txt", "- d2/*", "# comment", ""], ["- **/c.txt"]]


def run(ctx):
    thorough = ctx.tier == "thorough"
    rng = ctx.rng
    build.ensure_vsb()
    build.ensure_vsbh()
    nhist, nruns = (50, 10) if thorough else (6, 7)
    ctx.rule = ("%d histories of %d runs: 1..3 items, a third of them with a filter; files of 0, 1, 4095, 4096, 4097, 9000 bytes (and sizes around 512 / 8192) with "
                "duplicates, symlinks (dangling, absolute, 150-byte targets), names with spaces / unicode / 200 bytes, modes incl. setuid / "
                "sticky / 000, foreign owners, mtimes incl. pre-1970 and year 2400, hard links; edits modify / touch / rename / delete / add / "
                "type change / chmod / swap, each content change with a new mtime; limits 1..3 x 1..3, day jumps. After every second run "
                "and at the end EVERY retained backup is restored for real and compared with what its run read. Non-trivial: a restore of "
                "a backup; distinct by (backup, tree size)." % (nhist, nruns))
    for h in range(nhist):
        with slevel.Sandbox("c01") as sb:
            nitems = rng.choice([1, 1, 2, 3])
            filters = [rng.choice(FILTERS) if rng.random() < 0.35 else None for _ in range(nitems)]
            H = runs.History(ctx, sb, rng, "C01", rng.randrange(1, 4), rng.randrange(1, 4), nitems=nitems, filters=filters, identity_changes=True)
            H.w.populate(nfiles=9)
            for i in range(nruns):
                H.run()
                if i % 2 == 1:
                    H.restore_all(sample=4)
                if ctx.violations:
                    break
            if not ctx.violations:
                H.restore_all()
            H.report_diffs("backup-restore")
            if len(ctx.samples) < 3:
                ctx.sample({"items": nitems, "filters": filters, "history": H.log[:4]})
        if ctx.violations:
            break
    # identity corner cases, forced: a path whose file is replaced between two runs of one group so that exactly one component of
    # (device, inode, mtime) - the inode - or only the mtime differs, with the size unchanged
    for kind in ("renamed-over", "same-size-rewrite", "same-second-rewrite"):
        if ctx.has_failing_input():
            break
        with slevel.Sandbox("c01") as sb:
            H = runs.History(ctx, sb, rng, "C01", 3, 4, identity_changes=True)
            H.w.populate(nfiles=6)
            H.w.write_file(os.path.join(H.w.src, H.w.items[0], "identity.conf"), b"colour=blue-1\n" * 5)
            H.run(nedits=0)
            p = os.path.join(H.w.src, H.w.items[0], "identity.conf")
            if kind == "renamed-over":
                H.w.rename_over(p)
            elif kind == "same-second-rewrite":
                H.w.rewrite_same_second(p)
            else:
                st = os.lstat(p)
                H.w.write_file(p, b"colour=teal-2\n" * 5, mode=stat.S_IMODE(st.st_mode), owner=(st.st_uid, st.st_gid))
            ctx.count("forced." + kind)
            H.run(nedits=0)
            H.w.edit()
            H.run(nedits=0)
            H.restore_all()
            H.report_diffs("backup-restore")
    # archives much larger than the decompressor's block (128 KiB): hundreds of files of 1..4096 bytes (the restorer buffers those) and a few
    # larger ones, so that file data straddles block boundaries at many offsets
    if not ctx.has_failing_input():
        with slevel.Sandbox("c01") as sb:
            H = runs.History(ctx, sb, rng, "C01", 3, 4, nitems=2, identity_changes=True)
            top = os.path.join(H.w.src, H.w.items[0])
            os.makedirs(os.path.join(top, "small"))
            # copies of a file of the first item several new directory levels deep in the second item (walked later): their data is restored
            # when the first file's entry is read, before any of their parent directories has been seen
            dup = rng.randbytes(5000)
            H.w.write_file(os.path.join(top, "original.bin"), dup)
            deep = os.path.join(H.w.src, H.w.items[1], "vendor", "lib", "pkg", "deep")
            os.makedirs(deep)
            H.w.write_file(os.path.join(deep, "copy.bin"), dup)
            os.makedirs(os.path.join(H.w.src, H.w.items[1], "two", "levels"))
            H.w.write_file(os.path.join(H.w.src, H.w.items[1], "two", "levels", "copy2.bin"), dup)
            for i in range(500 if thorough else 260):
                n = rng.choice([1, 2, 511, 1536, 3000, 4095, 4096, 4097, rng.randrange(1, 4097)])
                H.w.write_file(os.path.join(top, "small", "f%04d" % i), rng.randbytes(n))
            H.w.write_file(os.path.join(top, "large.bin"), rng.randbytes(300000))
            # symlink targets around and beyond the 100 bytes of a tar header's link field (GNU long-link records)
            for i, tgt in enumerate(["a" * 99, "b" * 100, "c" * 101, "d" * 150, "/".join(["seg%02d" % k for k in range(25)]), "../" * 40 + "x", "/abs/" + "e" * 120 + "/f",
                                     "short"]):
                os.symlink(tgt, os.path.join(top, "link%d" % i))
            ctx.count("forced.many-small-files")
            H.run(nedits=0)
            H.w.edit()
            H.run(nedits=0)
            H.restore_all()
            H.report_diffs("backup-restore")
    ctx.traces = ctx.evaluations
    ctx.assumptions += ["every content change also changes (device, inode, mtime): the driver gives each rewritten file a fresh mtime",
                        "tar/zstd fidelity and chown/chmod/utimensat effects are observed on the restored tree, not proved",
                        "we run as root, so owners are restored; names are UTF-8 without CR/LF"]


def replay(ctx, doc):
    print("replay: histories are regenerated deterministically from VERIF_SEED; the failing history is in the replay file")
    return 0
