"""C11 - restore verifies what it writes, reports what it cannot, and stays confined.
Tie: crafted Layer-A storages (valid groups and every single corruption of the property's list) are written by the
independent encoder, restored by the real `vsb restore`, and exit status + restored tree are compared with the
Gallina plan/exec model; the property itself (exit 0 => every manifest line has its file with recorded size and
SHA-512; nothing outside the restore directory; storage untouched) is evaluated on the real result."""
import copy
import os
from concurrent.futures import ThreadPoolExecutor

from vlib import sexp, slevel, model, build

NAMES = {1: "d1", 2: "d2", 3: "f1", 4: "f2", 5: "sp ace", 6: "ü", 7: "s1", 8: "e1", 9: "g1", 10: "n" * 120, 11: "private", 12: "deep"}
GROUP = "2023.11.14"


def bname(i):
    return "%s-%02d:%02d:%02d" % (GROUP, 10 + i // 3600, (i // 60) % 60, i % 60)


def pstr(path):
    return "/".join(NAMES[c] for c in path)


CONTENTS = [b"", b"a", b"abc", b"hello world\n", bytes(range(256)) * 17, b"z" * 4096, b"y" * 4097, b"q" * 9000]
METAS = [(0o100644, 0, 0, 5), (0o100600, 1000, 1000, 1600000000), (0o100755, 12345, 54321, -315619200), (0o104755, 0, 7, 13569465600),
         (0o100000, 0, 0, 1)]
DMETAS = [(0o40755, 0, 0, 7), (0o40700, 1000, 1000, 1500000000), (0o41777, 0, 0, -86400)]


def gen_snapshot(rng):
    """entries in walk order: (type, path, meta, data/target)"""
    ents = [("dir", [1], rng.choice(DMETAS), None)]
    for c in rng.sample([3, 4, 5, 6, 8], rng.randrange(1, 5)):
        ents.append(("file", [1, c], rng.choice(METAS), rng.choice(CONTENTS)))
    if rng.random() < 0.6:
        ents.append(("dir", [1, 2], rng.choice(DMETAS), None))
        for c in rng.sample([3, 4, 9, 10], rng.randrange(0, 4)):
            ents.append(("file", [1, 2, c], rng.choice(METAS), rng.choice(CONTENTS)))
        if rng.random() < 0.4:
            ents.append(("sym", [1, 2, 7], (0o120777, 0, 0, 9), rng.choice([b"f1", b"../nowhere", b"/abs/target", b"t" * 150])))
        if rng.random() < 0.5:
            # a deeper directory holding a copy of a file seen earlier in the walk: its data is restored when the earlier file's entry is read,
            # i.e. before the archive entries of its own parent directories
            ents.append(("dir", [1, 2, 11], rng.choice(DMETAS), None))
            ents.append(("dir", [1, 2, 11, 12], rng.choice(DMETAS), None))
            earlier = [e for e in ents if e[0] == "file" and e[3]]
            ents.append(("file", [1, 2, 11, 12, 3], rng.choice(METAS), rng.choice(earlier)[3] if earlier else rng.choice(CONTENTS)))
    if rng.random() < 0.3:
        ents.append(("sym", [1, 7], (0o120777, 1000, 1000, 11), b"f1"))
    return ents


def gen_group(rng):
    n = rng.randrange(1, 5)
    group = []
    known = set()
    snap = gen_snapshot(rng)
    for i in range(n):
        if i:
            # edit: change some contents, drop / add
            snap = [(t, p, m, (rng.choice(CONTENTS) if t == "file" and rng.random() < 0.3 else d)) for (t, p, m, d) in snap]
            if rng.random() < 0.3:
                snap = gen_snapshot(rng)
        lines = []
        entries = []
        for (t, p, m, d) in snap:
            if t == "file":
                uniq = len(d) > 0 and d not in known
                if uniq:
                    known.add(d)
                lines.append({"u": uniq, "hc": d, "size": len(d), "path": list(p)})
                entries.append({"t": "file", "path": list(p), "meta": m, "data": d if uniq else b""})
            elif t == "dir":
                entries.append({"t": "dir", "path": list(p), "meta": m})
            else:
                entries.append({"t": "sym", "path": list(p), "meta": m, "target": d})
        group.append({"name": i * 61 + 1, "lines": lines, "entries": entries})
    return group


def corrupt(rng, group, target_idx):
    """one corruption of the property's list; returns (label, group', file_level_op or None)"""
    g = copy.deepcopy(group)
    k = rng.randrange(22)
    bi = rng.randrange(0, target_idx + 1)
    b = g[bi]
    files = [e for e in b["entries"] if e["t"] == "file"]
    if k == 0 and files:
        e = rng.choice(files)
        b["entries"].remove(e)
        return "archive entry removed", g, None
    if k == 1:
        b["entries"].append({"t": "file", "path": [1, 9], "meta": METAS[0], "data": b"surprise"})
        return "archive entry added", g, None
    if k == 2 and files:
        e = rng.choice(files)
        d = bytearray(e["data"] or b"\0")
        d[rng.randrange(len(d))] ^= 0x40
        e["data"] = bytes(d)
        return "archive data flipped", g, None
    if k == 3 and len(files) >= 2:
        a, c = rng.sample(files, 2)
        a["data"], c["data"] = c["data"], a["data"]
        return "archive entries swapped", g, None
    if k == 4 and files:
        e = rng.choice(files)
        e["data"] = e["data"][:len(e["data"]) // 2]
        return "archive entry shortened", g, None
    if k == 5 and files:
        e = rng.choice(files)
        b["entries"].insert(b["entries"].index(e), copy.deepcopy(e))
        return "archive entry duplicated", g, None
    if k == 6 and b["lines"]:
        l = rng.choice(b["lines"])
        l["hc"] = rng.choice([c for c in CONTENTS + [b"other"] if c != l["hc"]])
        return "manifest hash altered", g, None
    if k == 7 and b["lines"]:
        l = rng.choice(b["lines"])
        l["size"] = rng.choice([0, 1, l["size"] + 1, max(0, l["size"] - 1), 7, 5000])
        return "manifest size altered", g, None
    if k == 8 and b["lines"]:
        l = rng.choice(b["lines"])
        l["u"] = not l["u"]
        return "manifest status altered", g, None
    if k == 9 and b["lines"]:
        l = rng.choice(b["lines"])
        l["path"] = l["path"][:-1] + [rng.choice([3, 4, 8, 9])]
        return "manifest path altered", g, None
    if k == 10 and b["lines"]:
        b["lines"].remove(rng.choice(b["lines"]))
        return "manifest line removed", g, None
    if k == 11:
        src = rng.choice(b["lines"]) if b["lines"] and rng.random() < 0.5 else None
        l = {"u": rng.random() < 0.5, "hc": rng.choice(CONTENTS), "size": 3, "path": (src["path"] if src else [1, 9])}
        l["size"] = len(l["hc"]) if rng.random() < 0.7 else 3
        b["lines"].insert(rng.randrange(len(b["lines"]) + 1), l)
        return "manifest line added", g, None
    if k == 12 and target_idx > 0:
        del g[rng.randrange(0, target_idx)]
        return "earlier backup deleted", g, None
    if k == 20:
        return "garbage after the manifest's last frame", g, ("append", bi, "metadata.zst")
    if k == 21:
        return "garbage after the archive's last frame", g, ("append", bi, "data.tar.zst")
    if k == 13:
        return "data file truncated", g, ("truncate", bi, "data.tar.zst")
    if k == 14:
        return "metadata file truncated", g, ("truncate", bi, "metadata.zst")
    if k == 15:
        return "data file deleted", g, ("delete", bi, "data.tar.zst")
    if k == 16:
        return "metadata file deleted", g, ("delete", bi, "metadata.zst")
    if k == 17 and files:
        e = rng.choice(files)
        e["t"] = "dir"
        e["meta"] = DMETAS[0]
        return "archive entry type changed", g, None
    if k == 18 and b["lines"]:
        rng.shuffle(b["lines"])
        return "manifest lines reordered", g, None
    if k == 19:
        dirs = [e for e in b["entries"] if e["t"] == "dir"]
        if dirs:
            b["entries"].remove(rng.choice(dirs))
            return "archive directory entry removed", g, None
    return "none", g, None


def targeted(rng, group):
    """corruptions that need a particular record: applied to every generated group that has such a record"""
    out = []
    for ti in range(len(group)):
        for bi in range(ti + 1):
            b = group[bi]
            for li, l in enumerate(b["lines"]):
                if l["u"] and l["size"] > 0:
                    for delta, label in ((3, "unique record's size raised"), (-1, "unique record's size lowered")):
                        g = copy.deepcopy(group)
                        g[bi]["lines"][li]["size"] = l["size"] + delta
                        out.append((label, g, group[ti]["name"]))
                    break
            for li, l in enumerate(b["lines"]):
                if not l["u"] and l["size"] > 0:
                    g = copy.deepcopy(group)
                    g[bi]["lines"][li]["size"] = l["size"] + 2
                    out.append(("extern record's size raised", g, group[ti]["name"]))
                    break
    rng.shuffle(out)
    return out[:3]


def wire_meta(m):
    return [m[0], m[1], m[2], sexp.Z(m[3])]


def wire_group(g):
    out = []
    for b in g:
        ls = [[int(l["u"]), list(l["hc"]), l["size"], l["path"]] for l in b["lines"]]
        es = []
        for e in b["entries"]:
            if e["t"] == "dir":
                es.append([0, e["path"], wire_meta(e["meta"])])
            elif e["t"] == "file":
                es.append([1, e["path"], wire_meta(e["meta"]), list(e["data"])])
            else:
                es.append([2, e["path"], wire_meta(e["meta"]), list(e["target"])])
        out.append([b["name"], ls, es])
    return out


def json_group(g):
    bs = []
    for b in g:
        man = [{"unique": l["u"], "hash": slevel.sha512(l["hc"]), "fp": [1, 2, 3], "size": l["size"],
                "path_hex": ("/" + pstr(l["path"])).encode().hex()} for l in b["lines"]]
        ents = []
        for e in b["entries"]:
            m = e["meta"]
            j = {"type": e["t"], "path_hex": pstr(e["path"]).encode().hex(), "mode": m[0], "uid": m[1], "gid": m[2],
                 "mtime": m[3] % (1 << 64)}
            if e["t"] == "file":
                j["data_hex"] = e["data"].hex()
            if e["t"] == "sym":
                j["target_hex"] = e["target"].hex()
            ents.append(j)
        bs.append({"name": bname(b["name"]), "manifest": man, "entries": ents})
    return {"groups": [{"name": GROUP, "backups": bs}]}


def model_tree(res):
    """model result -> {relpath: node}"""
    t = {}
    for p, n in res[2]:
        rel = pstr(p)
        if n[0] == 0:
            t[rel] = {"type": "file", "data": bytes(n[1]), "meta": n[2][0] if n[2] else None}
        elif n[0] == 1:
            t[rel] = {"type": "dir", "meta": n[1][0] if n[1] else None}
        else:
            t[rel] = {"type": "sym", "target": bytes(n[1]), "meta": n[2]}
    return t


def tree_diff(mt, rt):
    """differences between the model's tree and the scan of the restore directory"""
    diffs = []
    for rel in sorted(set(mt) | set(rt)):
        if rel not in rt:
            diffs.append("%s: in the model only" % rel)
            continue
        if rel not in mt:
            diffs.append("%s: restored but not in the model" % rel)
            continue
        m, r = mt[rel], rt[rel]
        if m["type"] != r["type"]:
            diffs.append("%s: type %s vs %s" % (rel, m["type"], r["type"]))
            continue
        if m["type"] == "file" and m["data"] != r.get("data"):
            diffs.append("%s: data differs (%d vs %d bytes)" % (rel, len(m["data"]), r["size"]))
        if m["type"] == "sym" and m["target"] != os.fsencode(r["target"]):
            diffs.append("%s: target differs" % rel)
        meta = m["meta"]
        if meta:
            mode, uid, gid, mt_ = meta[0], meta[1], meta[2], sexp.unZ(meta[3])
            if m["type"] != "sym" and (mode & 0o7777) != r["mode"]:
                diffs.append("%s: mode %o vs %o" % (rel, mode & 0o7777, r["mode"]))
            if (uid, gid) != (r["uid"], r["gid"]):
                diffs.append("%s: owner %d:%d vs %d:%d" % (rel, uid, gid, r["uid"], r["gid"]))
            if mt_ != r["mtime"]:
                diffs.append("%s: mtime %d vs %d" % (rel, mt_, r["mtime"]))
        elif m["type"] in ("file", "dir"):
            if r["mode"] != (0o600 if m["type"] == "file" else 0o700):
                diffs.append("%s: restored without recorded metadata but mode is %o" % (rel, r["mode"]))
    return diffs


def real_restore(case):
    """returns dict(exit, errors, tree, outside, storage_same)"""
    g, target, fileop = case["group"], case["target"], case["fileop"]
    with slevel.Sandbox("c11") as sb:
        st = sb.path("st")
        sb.write_storage(json_group(g), st)
        if fileop:
            op, bi, fname = fileop
            fp = os.path.join(st, GROUP, bname(g[bi]["name"]), fname)
            if op == "delete":
                os.remove(fp)
            elif op == "append":
                with open(fp, "ab") as f:
                    f.write(b"\x00\x01garbage after the last frame" * 6)
            else:
                sz = os.path.getsize(fp)
                with open(fp, "r+b") as f:
                    f.truncate(max(0, sz // 2))
        before = slevel.tree_digest(st)
        os.makedirs(sb.path("work"))
        tf = sb.path("restore-trace.txt")
        prefix = ["strace", "-f", "-o", tf, "-e", "trace=mkdir,mkdirat,openat,open,creat,symlink,symlinkat"] if case.get("trace") else None
        rc, out = sb.vsb(["restore", os.path.join(st, GROUP, bname(target)), sb.path("work", "out")], prefix=prefix)
        discipline = creation_discipline(tf, sb.path("work", "out")) if prefix else None
        after = slevel.tree_digest(st)
        tree = slevel.scan(sb.path("work", "out")) if os.path.isdir(sb.path("work", "out")) else {}
        outside = [n for n in os.listdir(sb.path("work")) if n != "out"]
        return {"exit": rc, "errors": slevel.errors_of(out), "tree": tree, "outside": outside, "storage_same": before == after, "out": out[-1500:],
                "discipline": discipline}


def creation_discipline(tf, out_dir):
    """every entry the restore creates below its directory: directories with mode 0700, files with O_CREAT|O_EXCL and mode 0600 (owner-only
    until the recorded mode is applied; never overwriting, never following a link at the last component)"""
    import re
    if not os.path.exists(tf):
        return None
    for line in open(tf, errors="replace"):
        m = re.search(r'\b(mkdir|mkdirat)\((?:AT_FDCWD, )?"((?:[^"\\]|\\.)*)", (0[0-7]+)\)', line)
        if m and (m.group(2) == out_dir or m.group(2).startswith(out_dir + "/")):
            if m.group(3) != "0700":
                return "directory %r is created with mode %s, not owner-only" % (m.group(2)[len(out_dir):] or "/", m.group(3))
        m = re.search(r'\b(openat|open|creat)\((?:AT_FDCWD, )?"((?:[^"\\]|\\.)*)", ([A-Z_|]+)(?:, (0[0-7]+))?\)', line)
        if m and m.group(2).startswith(out_dir + "/") and "O_CREAT" in m.group(3):
            if "O_EXCL" not in m.group(3):
                return "file %r is created without O_EXCL (%s): an existing file would be overwritten" % (m.group(2)[len(out_dir):], m.group(3))
            if m.group(4) not in ("0600",):
                return "file %r is created with mode %s, not owner-only" % (m.group(2)[len(out_dir):], m.group(4))
    return None


def prop_check(case, real):
    """the property on the real result"""
    g, target = case["group"], case["target"]
    if not real["storage_same"]:
        return "restore modified the backup storage"
    if real.get("discipline"):
        return real["discipline"]
    if real["outside"]:
        return "restore created %s outside the restore directory" % real["outside"]
    if real["exit"] == 0:
        tb = [b for b in g if b["name"] == target][0]
        own = {tuple(l["path"]) for l in tb["lines"] if l["u"] or l["size"] == 0}
        seen = set()
        for e in tb["entries"]:
            if e["t"] == "file" and tuple(e["path"]) in own:
                if tuple(e["path"]) in seen:
                    return "exit 0 although the archive holds two entries for %r: the second one overwrote the file created by the first" % pstr(e["path"])
                seen.add(tuple(e["path"]))
        for l in tb["lines"]:
            rel = pstr(l["path"])
            n = real["tree"].get(rel)
            if not n or n["type"] != "file":
                return "exit 0 but %r (recorded in the manifest) was not created" % rel
            if n["size"] != l["size"] or n["sha512"] != slevel.sha512(l["hc"]):
                return "exit 0 but %r has size %d / another hash, the manifest records size %d" % (rel, n["size"], l["size"])
    else:
        if not real["errors"]:
            return "non-zero exit without any error-level report"
    return None


def run(ctx):
    thorough = ctx.tier == "thorough"
    rng = ctx.rng
    build.ensure_vsb()
    build.ensure_vsbh()
    ngroups = 400 if thorough else 45
    ctx.rule = ("%d generated valid groups of 1..4 backups (shared / changing contents incl. empty, 4096/4097/9000 bytes; modes incl. setuid, "
                "000; foreign owners; pre-1970 and year-2400 mtimes; symlinks incl. dangling and 150-byte targets; names with spaces, unicode, "
                "120 bytes), each restored at every backup; plus for each group %d single corruptions drawn from: archive entry removed / "
                "added / flipped / swapped / shortened / duplicated / type changed, directory entry removed, manifest hash / size / status / "
                "path altered, line removed / added / reordered, earlier backup deleted, data or metadata file truncated / deleted. "
                "Non-trivial: the case has a corruption or restores a non-final backup; distinct by (group, corruption, target)."
                % (ngroups, 4 if not thorough else 6))
    cases = []
    for gi in range(ngroups):
        g = gen_group(rng)
        for ti, b in enumerate(g):
            cases.append({"label": "valid", "group": g, "target": b["name"], "fileop": None})
        for label, g2, tname in targeted(rng, g):
            cases.append({"label": label, "group": g2, "target": tname, "fileop": None})
        for _ in range(6 if thorough else 4):
            ti = rng.randrange(len(g))
            label, g2, fileop = corrupt(rng, g, ti)
            if label == "none":
                continue
            tname = g[ti]["name"]
            if not any(b["name"] == tname for b in g2):
                continue
            cases.append({"label": label, "group": g2, "target": tname, "fileop": fileop})
    for c in cases:
        ctx.count("corruption." + c["label"])
    wires = [[1100, [wire_group(c["group"]), c["target"]]] for c in cases]
    mres = model.run_driver(wires)
    vres = model.run_vm(wires[:6])
    if vres != mres[:6]:
        raise build.BuildError("extracted model and vm_compute disagree on the restore model")
    ctx.extra["vm_compute_cross_checked"] = 6
    for i, c in enumerate(cases):
        c["trace"] = c["label"] == "valid" or i % 3 == 0      # creation calls of these restores are traced (modes, O_EXCL)
    ctx.count("restores.traced", sum(1 for c in cases if c["trace"]))
    with ThreadPoolExecutor(max_workers=12) as ex:
        reals = list(ex.map(real_restore, cases))
    ndiff = 0
    first_diff = None
    for c, m, r in zip(cases, mres, reals):
        ctx.evaluations += 1
        if c["label"] != "valid" or c["target"] != c["group"][-1]["name"]:
            ctx.nontrivial.add((c["label"], sexp.dumps(wire_group(c["group"]))[:3000], c["target"], str(c["fileop"])))
        desc = {"corruption": c["label"], "target": bname(c["target"]), "backups": [bname(b["name"]) for b in c["group"]],
                "file_op": c["fileop"]}
        bad = prop_check(c, r)
        if bad:
            ctx.violation("restore", "%s (corruption: %s)" % (bad, c["label"]),
                          {"case": desc, "storage": json_group(c["group"]), "exit": r["exit"], "errors": r["errors"],
                           "restored": {k: {kk: vv for kk, vv in v.items() if kk != "data"} for k, v in r["tree"].items()}})
            if len(ctx.violations) >= 3:
                break
            continue
        if c["fileop"]:
            # truncated / deleted files are outside the Layer-A model: the property check above is the whole verdict
            ctx.count("outcome.file-level." + ("rejected" if r["exit"] else "complete"))
            continue
        d = None
        if m[0] == 0:
            if r["exit"] == 0:
                d = "the model aborts with an error, the implementation exits 0"
        else:
            ok = bool(m[1])
            if ok != (r["exit"] == 0):
                d = "the model ends with ok=%s, the implementation exits %d" % (ok, r["exit"])
            else:
                td = tree_diff(model_tree(m), r["tree"])
                if td:
                    d = "restored trees differ: " + "; ".join(td[:5])
        ctx.count("outcome." + ("abort" if m[0] == 0 else ("ok" if m[1] else "reported")))
        if d:
            ndiff += 1
            if first_diff is None:
                first_diff = (c, m, r, d, desc)
        if len(ctx.samples) < 4 and c["label"] != "valid":
            ctx.sample({"case": desc, "model": "abort" if m[0] == 0 else ("ok" if m[1] else "reported"), "exit": r["exit"], "errors": r["errors"][:2]})
    ctx.count("correspondence.diffs", ndiff)
    if first_diff and not ctx.violations:
        c, m, r, d, desc = first_diff
        ctx.violation("restore-model", "correspondence restore-exec no longer checks: %s (%d cases differ, none fails the property)" % (d, ndiff),
                      {"correspondence": "restore-exec", "case": desc, "storage": json_group(c["group"]), "exit": r["exit"],
                       "errors": r["errors"], "output": r["out"]}, failing_input=False)
    ctx.traces = len(cases)
    if not ctx.has_failing_input():
        big_part(ctx)
    paths_part(ctx)
    ctx.assumptions += ["SHA-512 is collision-free on the generated contents (the model's hash is the content itself)",
                        "tar / zstd crates read back what the independent encoder wrote",
                        "chown / chmod / utimensat do what they say (observed: the restored lstat is compared)"]


def big_part(ctx):
    """a backup of 3000 files whose manifest spans several compression blocks: intact it restores completely; with the manifest cut off in
    the middle (a decodable prefix, then a broken stream) restore must fail instead of silently producing fewer files"""
    n = 3000
    lines, ents = [], [{"type": "dir", "path_hex": b"big".hex(), "mode": 0o755, "uid": 0, "gid": 0, "mtime": 5}]
    for i in range(n):
        data = b"content of file %05d " % i * (1 + i % 3)
        lines.append({"unique": True, "hash": slevel.sha512(data), "fp": [1, 2, 3 + i], "size": len(data), "path_hex": (b"/big/f%05d" % i).hex()})
        ents.append({"type": "file", "path_hex": (b"big/f%05d" % i).hex(), "mode": 0o644, "uid": 0, "gid": 0, "mtime": 7, "data_hex": data.hex()})
    for label, extra in (("intact", {}), ("manifest cut to 60%", {"meta_truncate_permille": 600})):
        with slevel.Sandbox("c11") as sb:
            st = sb.path("st")
            b = {"name": bname(1), "manifest": lines, "entries": ents}
            b.update(extra)
            sb.write_storage({"groups": [{"name": GROUP, "backups": [b]}]}, st)
            rc, out = sb.vsb(["restore", os.path.join(st, GROUP, bname(1)), sb.path("out")], timeout=300)
            created = len([x for x in os.listdir(sb.path("out", "big"))]) if os.path.isdir(sb.path("out", "big")) else 0
            ctx.evaluations += 1
            ctx.count("big-manifest." + label.replace(" ", "-"))
            ctx.nontrivial.add(("big-manifest", label))
            if rc == 0 and created != n:
                ctx.violation("restore", "exit 0 but only %d of the %d files recorded in the manifest were created (%s)" % (created, n, label),
                              {"files": n, "corruption": label, "output": out[-400:]})
                return
            if label == "intact" and rc != 0:
                ctx.violation("restore", "correspondence big-backup-restores no longer checks: an intact backup of %d files does not restore: %s" % (n, slevel.errors_of(out)[:2]),
                              {"files": n}, failing_input=False)
                return
            if rc != 0 and not slevel.errors_of(out):
                ctx.violation("restore", "non-zero exit without any error-level report (%s)" % label, {"files": n})
                return


def paths_part(ctx):
    """get_restore_path / get_file_path_from_tar_path vs the Paths model, exhaustively over short strings"""
    import itertools
    thorough = ctx.tier == "thorough"
    alpha = [b"a", b".", b"/", b"\n"] if thorough else [b"a", b".", b"/"]
    maxlen = 6
    strings = [b""]
    for n in range(1, maxlen + 1):
        for t in itertools.product(alpha, repeat=n):
            strings.append(b"".join(t))
    extra = [b"/a/../b", b"/../etc/passwd", b"a/../../b", b"/a/b/..", b"..", b"/..", b"/a//b", b"//a", b"/a/./b/", "/ü/é".encode(), b"/a b/c", b"./a", b"a/.", b"/.", b"/a/...",
             b"/.../a", b"..a/b", b"/a..", b"/" + b"x" * 300]
    strings += extra
    dirp = b"/restore/dir"
    cases = [[1101, [list(dirp), list(s_)]] for s_ in strings] + [[1102, [list(s_)]] for s_ in strings]

    def comps(b):
        return b.split(b"/")

    def prop_ok(c, r):
        if c[0] == 1101:
            path = bytes(c[1][1])
            if r[0] == 1:
                out = bytes(r[1])
                rel = out[len(dirp):]
                if not out.startswith(dirp + b"/") or len(rel) < 2:
                    return False, "manifest path %r restores to %r, which is not below %r" % (path, out, dirp)
                if any(x in (b"", b".", b"..") for x in comps(rel[1:])):
                    return False, "manifest path %r restores to %r with an empty / . / .. component" % (path, out)
                if not path.startswith(b"/") or b".." in comps(path):
                    return False, "manifest path %r (relative or with ..) is accepted" % path
            return True, ""
        path = bytes(c[1][0])
        if r[0] == 1:
            out = bytes(r[1])
            if path.startswith(b"/") or b".." in comps(path):
                return False, "archive path %r (absolute or with ..) is accepted as %r" % (path, out)
            if not out.startswith(b"/") or any(x in (b"", b".", b"..") for x in comps(out[1:])):
                return False, "archive path %r becomes %r" % (path, out)
        return True, ""

    ctx.correspond("restore-paths", cases, lambda c, m: m, lambda c, r: r, prop_ok,
                   nontrivial=lambda c, m: sexp.dumps(c) if m[0] == 1 or b"." in bytes(c[1][-1]) else None,
                   describe=lambda c: {"function": "get_restore_path" if c[0] == 1101 else "get_file_path_from_tar_path", "path": bytes(c[1][-1]).decode("utf-8", "replace")})
    # traversal entries end to end: a crafted archive member / manifest line must make restore fail and create nothing outside
    g = [{"name": 1, "lines": [{"u": True, "hc": b"abc", "size": 3, "path": [1, 3]}],
          "entries": [{"t": "dir", "path": [1], "meta": DMETAS[0]}, {"t": "file", "path": [1, 3], "meta": METAS[0], "data": b"abc"}]}]
    for label, edit in [("archive member ../evil", ("entry", b"../evil")), ("archive member /abs/evil", ("entry", b"/abs/evil")),
                        ("archive member d1/../../evil", ("entry", b"d1/../../evil")),
                        ("manifest path relative", ("line", b"d1/f1")), ("manifest path with ..", ("line", b"/d1/../../evil"))]:
        spec = json_group(g)
        b = spec["groups"][0]["backups"][0]
        if edit[0] == "entry":
            b["entries"].append({"type": "file", "path_hex": edit[1].hex(), "mode": 0o100644, "uid": 0, "gid": 0, "mtime": 5, "data_hex": b"evil".hex(), "raw_path": True})
            b["manifest"].append({"unique": True, "hash": slevel.sha512(b"evil"), "fp": [1, 2, 3], "size": 4, "path_hex": (b"/" + edit[1].lstrip(b"/")).hex()})
        else:
            b["manifest"][0]["path_hex"] = edit[1].hex()
        with slevel.Sandbox("c11t") as sb:
            sb.write_storage(spec, sb.path("st"))
            os.makedirs(sb.path("work", "deep"))
            rc, out = sb.vsb(["restore", os.path.join(sb.path("st"), GROUP, bname(1)), sb.path("work", "deep", "out")])
            escaped = [p for p in slevel.scan(sb.path("work")) if not (p == "deep" or p.startswith("deep/out"))]
            ctx.evaluations += 1
            ctx.nontrivial.add(("traversal", label))
            ctx.count("traversal.cases")
            if rc == 0 or escaped or os.path.exists("/abs/evil"):
                ctx.violation("traversal", "%s: restore exits %d and leaves %s outside the restore directory" % (label, rc, escaped),
                              {"case": label, "storage": spec, "output": out[-800:]})


def replay(ctx, doc):
    print("replay: the storage description is in the replay file under 'storage'; write it with `vsbh storage-write` and run `vsb restore`")
    return 0
