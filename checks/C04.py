"""C04 - the uploaded object decrypts to exactly the local backup.
Tie: the real `vsb upload` (hook-enabled build) runs against the provider emulator with a recording gpg stand-in first in PATH.
In 'tee' mode the stand-in runs the real gpg and keeps a copy of what it produced; in 'fake:N' mode it plays an encryptor whose output
is exactly N chosen bytes, so that sizes around the request-size limit (lowered for Dropbox by the hook; the real 150 MiB in the thorough
tier) are hit exactly.  Examined: stored object == encryptor output byte for byte; request bodies cut as the proved `chunks` says;
decryption with the configured passphrase gives exactly <name>/, <name>/data.tar.zst, <name>/metadata.zst with the local bytes; a
wrong passphrase fails; no window of the local files appears in the object; the passphrase is absent from gpg's argv and environment and
arrives through a pipe nobody else holds."""
import glob
import json
import os
import subprocess

from vlib import aux, build, cloud, runs, slevel

PASSPHRASES = ['pass phrase "quoted" ü', "simple", " leading and trailing ", "quo'te\"s $HOME `x` \\n", "пароль 密码 🔑", "-starts-with-dash", "a" * 200]
SHIM_DIR = os.path.join(build.VERIF, "tools", "shimgpg")
LIMIT = 65536


def chunks(n, m):
    return [m] * (n // m) + ([n % m] if n % m else [])


class Scene:
    def __init__(self, ctx, sb, rng, provider, passphrase, big):
        self.ctx, self.sb, self.provider, self.passphrase = ctx, sb, provider, passphrase
        H = runs.History(ctx, sb, rng, "C04", 3, 3)
        H.w.populate(nfiles=rng.randrange(1, 5))
        # (a tree without regular files makes the upload's verification complain - finding F10, C13's subject)
        H.w.write_file(os.path.join(H.w.src, H.w.items[0], "keeper"), b"k" * rng.choice([1, 300, 5000]))
        if big:
            top = os.path.join(H.w.src, H.w.items[0])
            H.w.write_file(os.path.join(top, "bulk.bin"), rng.randbytes(big))
        H.now = runs.BASE + 3600
        H.advance = lambda: None
        for i in range(2):
            H.now += 61
            H.run(nedits=1)
        self.H = H
        self.st = H.w.st
        la, _ = runs.listing(H.dec)
        self.group = la[-1][0]
        self.backups = la[-1][1]
        cloud.write_upload_config(sb, self.st, provider, passphrase=passphrase)
        base = {cloud.CLOUD_ROOT: {"type": "folder"}}
        self.init = {"dropbox": base, "yandex": base, "google": base}
        self.local = {}
        for b in self.backups:
            self.local[b] = {f: open(os.path.join(self.st, self.group, b, f), "rb").read() for f in ("data.tar.zst", "metadata.zst")}
        self.n = 0

    def final_path(self, b):
        return "%s/%s/%s.tar.gpg" % (cloud.CLOUD_ROOT, self.group, b)

    def run(self, mode, limit=None, exe=None, timeout=300):
        self.n += 1
        prefix = None
        sched_env = {}
        if mode.startswith("readfail"):
            # the k-th read of the first backup's data.tar.zst fails with EIO while the upload archives it (real gpg, recorded).  The failure
            # is produced inside the vsb process by the LD_PRELOAD interposer: under `strace -f` the python stand-in for gpg loses output
            # (observed: holes of whole 8 KiB blocks), which has nothing to do with vsb.
            k = int(mode.split(":")[1])
            victim = os.path.join(self.st, self.group, self.backups[0], "data.tar.zst")
            self.sched_log = self.sb.path("sched-readfail-%d.log" % self.n)
            sched_env = {"LD_PRELOAD": aux.ensure_faketime() + ":" + aux.ensure_sched(), "VERIF_SCHED": victim + "|read,%d,fail,0" % k, "VERIF_SCHED_LOG": self.sched_log}
            mode_env = "tee"
        else:
            mode_env = mode
        gd = self.sb.path("gpgrec%d" % self.n)
        os.makedirs(gd)
        emu = cloud.Emu(self.sb.path("emu%d" % self.n), init=self.init)
        env = {"PATH": SHIM_DIR + ":" + os.environ["PATH"], "VERIF_GPG_DIR": gd, "VERIF_GPG_MODE": mode_env, "VERIF_REAL_GPG": cloud.REAL_GPG}
        env.update(sched_env)
        if limit:
            env["VSB_VERIF_DROPBOX_MAX_REQUEST_SIZE"] = str(limit)
        try:
            r = cloud.run_upload(self.sb, emu, now=self.H.now + 500, timeout=timeout, extra_env=env, exe=exe, prefix=prefix)
            r["requests"] = emu.requests()
            r["files"] = emu.files(self.provider)
            r["blobs"] = {}
            for p, e in r["files"].items():
                for x in (e if isinstance(e, list) else [e]):
                    if x.get("type") == "file":
                        r["blobs"].setdefault(p, []).append(emu.object_bytes(x))
        finally:
            emu.stop()
        r["calls"] = [json.load(open(f)) for f in sorted(glob.glob(os.path.join(gd, "call.*.json")))]
        r["outs"] = {}
        for f in glob.glob(os.path.join(gd, "out.*")):
            r["outs"][f] = open(f, "rb").read()
        r["gd"] = gd
        return r


def body_sizes(r, provider):
    """sizes of the data-carrying request bodies per upload, in order"""
    per, cur = [], None
    for q in r["requests"]:
        rt = q["route"]
        if provider == "dropbox":
            if rt == "dropbox.upload_session.start":
                cur = [q.get("body_bytes") or 0] if q.get("body_bytes") else []
                per.append(cur)
            elif rt == "dropbox.upload_session.append" and cur is not None:
                cur.append(q.get("body_bytes") or 0)
            elif rt == "dropbox.upload_session.finish" and cur is not None and q.get("body_bytes"):
                cur.append(q["body_bytes"])
        elif rt in ("yandex.upload.put", "google.upload.put"):
            if q.get("body_bytes"):       # Google Drive folders are created through the same route with an empty body
                per.append([q["body_bytes"]])
    return per


def examine_killed(sc, r, label):
    """the encryptor died from a signal after passing on half of its output: whatever bears a final name must still be the local backup"""
    if r["timed_out"]:
        return ("violation", "%s: the upload did not terminate" % label)
    for b in sc.backups:
        for blob in r["blobs"].get(sc.final_path(b), []):
            try:
                members = cloud.decrypt_members(sc.sb, blob, passphrase=sc.passphrase)
            except Exception as e:
                return ("violation", "%s: the object published under the final name of %s (%d bytes) does not decrypt (%s)" % (label, b, len(blob), str(e)[-80:]))
            want = {b: None, b + "/data.tar.zst": sc.local[b]["data.tar.zst"], b + "/metadata.zst": sc.local[b]["metadata.zst"]}
            if members != want:
                return ("violation", "%s: the object published under the final name of %s is not the local backup" % (label, b))
    if not slevel.errors_of(r["out"]):
        return ("violation", "%s: the upload was disturbed but no error is reported" % label)
    return None


def examine(sc, r, label, mode, limit):
    """returns (kind, problem) or None; kind 'violation' has a failing input, 'tie' is a broken correspondence"""
    if mode.startswith("teekill") or mode.startswith("readfail"):
        return examine_killed(sc, r, label)
    errs = slevel.errors_of(r["out"])
    if r["timed_out"] or r["exit"] != 0 or errs:
        return ("tie", "%s: the undisturbed upload does not complete: exit %s, %s" % (label, r["exit"], errs[:2]))
    outs = sorted(r["outs"].values(), key=len)
    if len(outs) != len(sc.backups) or len(r["calls"]) != len(sc.backups):
        return ("tie", "%s: expected one gpg invocation per backup, saw %d" % (label, len(r["calls"])))
    objects = []
    for b in sc.backups:
        blobs = r["blobs"].get(sc.final_path(b), [])
        if len(blobs) != 1:
            return ("violation", "%s: %d objects under the final name of %s" % (label, len(blobs), b))
        objects.append(blobs[0])
    # the provider received exactly the bytes the encryptor produced
    if sorted(objects, key=len) != outs and sorted(map(hash, objects)) != sorted(map(hash, outs)):
        for o in objects:
            if o not in outs:
                near = min(outs, key=lambda x: abs(len(x) - len(o)))
                k = next((i for i in range(min(len(o), len(near))) if o[i] != near[i]), min(len(o), len(near)))
                return ("violation", "%s: the stored object (%d bytes) is not what the encryptor produced (%d bytes): first difference at offset %d"
                        % (label, len(o), len(near), k))
    for o in objects:
        if o not in outs:
            return ("violation", "%s: a stored object of %d bytes equals no encryptor output" % (label, len(o)))
    # request bodies are the stream cut at the limit
    per = body_sizes(r, sc.provider)
    lens = [len(o) for o in objects]
    if sc.provider == "dropbox":
        m = limit or 150 * 1024 * 1024
        exp = sorted(chunks(n, m) for n in lens)
        if sorted(per) != exp:
            if any(x > m for p in per for x in p):
                return ("violation", "%s: a request body exceeds the request-size limit %d: %s" % (label, m, per))
            return ("tie", "correspondence request-bodies-are-chunks no longer checks: %s: body sizes %s, the proved specification says %s" % (label, per, exp))
    else:
        if sorted(per) != sorted([n] for n in lens):
            return ("tie", "correspondence single-streamed-put no longer checks: %s: body sizes %s for objects of %s bytes" % (label, per, lens))
    # how gpg was called
    for c in r["calls"]:
        pw = sc.passphrase
        if any(pw in a for a in c["argv"]):
            return ("violation", "%s: the passphrase is on gpg's command line: %s" % (label, c["argv"]))
        for k, v in c["env"].items():
            if pw in v or pw in k:
                return ("violation", "%s: the passphrase is in gpg's environment (%s)" % (label, k))
        pfd = c.get("passphrase_fd")
        if pfd is None:
            return ("violation", "%s: gpg is not given the passphrase through --passphrase-fd: %s" % (label, c["argv"]))
        target = c["fds"].get(str(pfd), "")
        if not target.startswith("pipe:"):
            return ("violation", "%s: the passphrase descriptor %s is not a pipe (%s)" % (label, pfd, target))
        if sum(1 for t in c["fds"].values() if t == target) != 1:
            return ("violation", "%s: the passphrase pipe is held by more than one descriptor of gpg: %s" % (label, c["fds"]))
    if mode != "tee":
        return None
    for b, blob in zip(sc.backups, objects):
        if blob[:1] not in (b"\x8c", b"\xc3"):
            return ("violation", "%s: the object of %s does not start with a symmetric-key encrypted session key packet" % (label, b))
        try:
            members = cloud.decrypt_members(sc.sb, blob, passphrase=sc.passphrase)
        except Exception as e:
            return ("violation", "%s: the object of %s does not decrypt with the configured passphrase (%s)" % (label, b, e))
        want = {b: None, b + "/data.tar.zst": sc.local[b]["data.tar.zst"], b + "/metadata.zst": sc.local[b]["metadata.zst"]}
        if members != want:
            diff = [k for k in set(members) | set(want) if members.get(k) != want.get(k)]
            return ("violation", "%s: the decrypted archive of %s is not exactly the local backup: differs in %s" % (label, b, sorted(diff)))
        try:
            cloud.decrypt_members(sc.sb, blob, passphrase=sc.passphrase + "x")
            return ("violation", "%s: the object of %s decrypts with a wrong passphrase" % (label, b))
        except ValueError:
            pass
        for f, data in sc.local[b].items():
            step = max(1, len(data) // 40)
            for off in range(0, max(1, len(data) - 24), step):
                w = data[off:off + 24]
                if len(w) == 24 and w in blob:
                    return ("violation", "%s: 24 bytes of the local %s (offset %d) appear in clear in the transmitted object" % (label, f, off))
    return None


def one(ctx, rng, provider, passphrase, big, modes, exe=None):
    with slevel.Sandbox("c04") as sb:
        sc = Scene(ctx, sb, rng, provider, passphrase, big)
        try:
            for mode, limit in modes:
                r = sc.run(mode, limit=limit, exe=exe)
                ctx.evaluations += 1
                sizes = sorted(len(o) for o in r["outs"].values())
                label = "%s, passphrase %r, %s, limit %s, encryptor output %s bytes" % (provider, passphrase[:30], mode, limit, sizes)
                ctx.count("provider." + provider)
                ctx.count("mode." + mode.split(":")[0])
                if mode.startswith("readfail"):
                    lg = getattr(sc, "sched_log", None)
                    if not (lg and os.path.exists(lg) and "fail" in open(lg).read()):
                        ctx.count("mode.readfail-not-reached")
                        continue
                if provider == "dropbox":
                    m = limit or 150 * 1024 * 1024
                    for n in sizes:
                        ctx.count("dropbox.size-vs-limit." + ("exact-multiple" if n % m == 0 and n else "below" if n < m else "above"))
                ctx.nontrivial.add((provider, passphrase, mode, limit, tuple(sizes)))
                pr = examine(sc, r, label, mode, limit if provider == "dropbox" else None)
                if pr:
                    ctx.violation("upload", pr[1], {"provider": provider, "passphrase": passphrase, "mode": mode, "limit": limit, "big": big,
                                                    "output": r["out"][-600:]}, failing_input=(pr[0] == "violation"))
                    return
                import shutil
                shutil.rmtree(sb.path("emu%d" % sc.n), ignore_errors=True)
                shutil.rmtree(r["gd"], ignore_errors=True)
        finally:
            cloud.kill_agents(sb)


def run(ctx):
    thorough = ctx.tier == "thorough"
    rng = ctx.rng
    build.ensure_vsb()
    build.ensure_vsbh()
    L = LIMIT
    fakes = [("fake:%d" % n, L) for n in (1, L - 1, L, L + 1, 2 * L, 2 * L + 1, 3 * L)]
    ctx.rule = ("for each provider: local groups of two backups made by real runs (tiny trees; trees with an incompressible file of 0.2-3 MB), "
                "passphrases with spaces / quotes / unicode / shell metacharacters / leading dash / 200 characters; uploads with the real gpg "
                "(recorded; also with the encryptor dying from SIGKILL / SIGTERM after passing on half of its output) and with a stand-in encryptor emitting exactly N bytes for N in {1, L-1, L, L+1, 2L, 2L+1, 3L} around the Dropbox "
                "request limit lowered to L = 65536 by the hook%s. Non-trivial: every run; distinct by (provider, passphrase, mode, limit, sizes)."
                % ("; plus the real limit 150 MiB with N in {150 MiB - 1, 150 MiB, 150 MiB + 1, 300 MiB} on the release build" if thorough else ""))
    pws = PASSPHRASES if thorough else [PASSPHRASES[0], PASSPHRASES[2], rng.choice([PASSPHRASES[1]] + PASSPHRASES[3:])]
    for provider in ("dropbox", "yandex", "google"):
        for i, pw in enumerate(pws):
            big = rng.choice([200000, 700000, 3000000] if thorough else [150000, 400000]) if (i == 0 or thorough) else 0
            modes = [("tee", L if provider == "dropbox" else None)]
            if i == 0:
                modes += [("teekill9", None), ("teekill15", None), ("readfail:1", None), ("readfail:3", None), ("tee", None)] + (fakes if provider == "dropbox" else [("fake:%d" % (2 * L + 1), None), ("fake:1", None)])
            one(ctx, rng, provider, pw, big, modes)
            if ctx.violations:
                return
    if thorough:
        exe = build.ensure_vsb(release=True)
        M = 150 * 1024 * 1024
        for n in (M - 1, M, M + 1, 2 * M):
            one(ctx, rng, "dropbox", "simple", 0, [("fake:%d" % n, None)], exe=exe)
            if ctx.violations:
                return
    ctx.assumptions += ["gpg decrypt(encrypt(x)) = x and a wrong passphrase fails (observed on every object)",
                        "the emulator stores what it receives and enforces Dropbox session offsets",
                        "the recording stand-in sees the same argv / environment / descriptors the real gpg would"]


def replay(ctx, doc):
    print("replay: re-run ./check C04 with the same VERIF_SEED; the case is in the replay file:", {k: doc.get(k) for k in ("provider", "passphrase", "mode", "limit", "big")})
    return 0
