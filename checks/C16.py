"""C16 - runs on the same storage or configuration are mutually exclusive.
Tie: (a) traces of the real `vsb backup`: the exclusive non-blocking flock on the backup root is the first access to the
storage and is held (no LOCK_UN, no close of the descriptor) until after the last removal of an old group; (b) a second
real `vsb backup` is started while the first one is paused - right after taking the lock (delayed mkdir of the temporary),
while items are read (a sleeping `before` hook), during publication (delayed rename), during old-group removal (delayed
unlinkat): it must fail at once with the lock error, issue no mutating storage call, and leave the listing unchanged;
the outcome is compared with the Gallina scheduler model (second process Refused, first completes)."""
import os
import re
import shutil
import subprocess
import time

from vlib import aux, build, model, runs, slevel, trace


def storage_listing(st):
    out = []
    for dp, dn, fn in os.walk(st):
        for n in sorted(dn + fn):
            out.append(os.path.relpath(os.path.join(dp, n), st))
    return sorted(out)


def start_first(sb, H, inject, tf):
    env = dict(os.environ)
    env.update({"TZ": "UTC", "LC_ALL": "C", "HOME": sb.path("home"), "LD_PRELOAD": aux.ensure_faketime(), "VERIF_FAKE_TIME": str(H.now)})
    cmd = trace.strace_cmd(tf, trace.STORAGE_CALLS, inject=inject) + [build.VSB, "-c", sb.cfg, "backup", "w"]
    return subprocess.Popen(cmd, stdout=subprocess.PIPE, stderr=subprocess.STDOUT, env=env, cwd=sb.root)


def wait_for(pred, timeout=8.0):
    t0 = time.time()
    while time.time() - t0 < timeout:
        if pred():
            return True
        time.sleep(0.02)
    return False


def scenario(ctx, rng, point, alias=False):
    """alias: the second run reaches the same backup root under another spelling (a symbolic link to it, in a second configuration file)"""
    with slevel.Sandbox("c16") as sb:
        rotate = point == "removal"
        H = runs.History(ctx, sb, rng, "C16", 1 if rotate else 3, 1 if rotate else 3)
        H.w.populate(nfiles=4)
        for _ in range(2 if rotate else 1):
            H.run(nedits=1)
            H.now += 86400 if rotate else 5
        H.advance()
        if rotate:
            H.now += 86400
        tf = sb.path("t1.txt")
        marker = sb.path("hook-started")
        inject = None
        if point == "after-lock":
            inject = ["mkdir:delay_enter=2500000:when=1"]
            ready = lambda: os.path.exists(tf) and "flock(" in open(tf, errors="replace").read()
        elif point == "reading":
            # a sleeping before-hook: the temporary exists, items are about to be read
            cfg = open(sb.cfg).read().replace("        - path: %s" % os.path.join(H.w.src, "item0"),
                                              "        - path: %s\n          before: 'touch %s; sleep 2.5'" % (os.path.join(H.w.src, "item0"), marker))
            open(sb.cfg, "w").write(cfg)
            ready = lambda: os.path.exists(marker)
        elif point == "publication":
            inject = ["rename:delay_enter=2500000:when=1"]
            ready = lambda: os.path.exists(tf) and len(re.findall(r"fsync\(", open(tf, errors="replace").read())) >= 3
        else:
            inject = ["unlinkat:delay_enter=2500000:when=1"]
            ready = lambda: os.path.exists(tf) and "rename(" in open(tf, errors="replace").read()
        before = storage_listing(H.w.st)
        p1 = start_first(sb, H, inject, tf)
        ok = wait_for(ready)
        time.sleep(0.25)
        mid = storage_listing(H.w.st)
        # the second run, traced
        tf2 = sb.path("t2.txt")
        t0 = time.time()
        cfg_first = sb.cfg
        if alias:
            link = sb.path("st-alias")
            os.symlink(H.w.st, link)
            cfg2 = sb.path("cfg-alias.yaml")
            with open(cfg2, "w") as f:
                f.write(open(cfg_first).read().replace("path: %s\n" % H.w.st, "path: %s\n" % link))
            sb.cfg = cfg2
        try:
            rc2, out2 = sb.vsb(["backup", "w"], now=H.now + 1, prefix=trace.strace_cmd(tf2, trace.STORAGE_CALLS))
        finally:
            sb.cfg = cfg_first
        dt = time.time() - t0
        after_second = storage_listing(H.w.st)
        first_running = p1.poll() is None
        out1 = p1.communicate(timeout=60)[0].decode("utf-8", "replace")
        rc1 = p1.returncode
        ev2 = trace.parse(tf2)
        main2 = ev2[0]["pid"] if ev2 else None
        ops2 = trace.project([e for e in ev2 if e["pid"] == main2], H.w.st)
        if alias:
            ops2 = ops2 + trace.project([e for e in ev2 if e["pid"] == main2], sb.path("st-alias"))
        mutating2 = [o for o in ops2 if o["op"] in ("mkdir", "create", "write", "rename", "remove", "open-write") and o.get("rel") is not None]
        ctx.evaluations += 1
        ctx.count("pause." + point + (".aliased-root" if alias else ""))
        ctx.nontrivial.add((point, alias, rc1, rc2))
        desc = {"first_paused": point, "second_run_through_a_symlink_to_the_root": alias, "first_still_running_when_second_ended": first_running, "second_exit": rc2, "second_seconds": round(dt, 2),
                "second_errors": slevel.errors_of(out2)[:2], "first_exit": rc1}
        ctx.sample(desc)
        if ok and (rc2 == 0 or mutating2) and any("lock" in e.lower() for e in slevel.errors_of(out2)) is False:
            # the first run had reached the pause point (it held the lock) when the second one was started, and the second one went ahead
            ctx.violation("exclusion", "a second `vsb backup`%s started while the first was paused (%s) was not refused: exit %d, storage calls %s"
                          % (" reaching the same root through a symbolic link" if alias else "", point, rc2, [(o["op"], o["rel"]) for o in mutating2[:3]]),
                          {"case": desc, "second_output": out2[-600:]})
            return
        if not ok or not first_running:
            ctx.violation("schedule", "correspondence lock-schedule no longer checks: the first run could not be paused at '%s' (ready=%s, running=%s)" % (point, ok, first_running),
                          {"case": desc, "first_output": out1[-600:]}, failing_input=False)
            return
        problem = None
        if rc2 == 0:
            problem = "a second `vsb backup` started while the first was paused (%s) exits 0" % point
        elif not any("lock" in e.lower() for e in slevel.errors_of(out2)):
            problem = "the second run fails without a lock error: %s" % slevel.errors_of(out2)[:2]
        elif mutating2:
            problem = "the refused second run issued mutating storage calls: %s" % [(o["op"], o["rel"]) for o in mutating2[:3]]
        elif mid != after_second:
            problem = "the storage listing changed while only the refused second run was active"
        elif dt > 2.0:
            problem = "the second run did not fail immediately (%.1f s)" % dt
        if problem:
            ctx.violation("exclusion", problem, {"case": desc, "second_output": out2[-600:]})
            return
        if rc1 != 0:
            ctx.violation("schedule", "correspondence lock-schedule no longer checks: the paused first run exits %d" % rc1, {"case": desc, "first_output": out1[-600:]}, failing_input=False)
            return
        # the scheduler model: process 0 takes the lock and some steps, process 1 tries, process 0 finishes
        m = model.run_driver([[1600, [3, [0, 0, 1, 0, 0, 0, 0]]]])[0]
        if m[1] != 2 or m[2] != 3 or any(e[0] == 1 for e in m[3]):
            ctx.violation("schedule", "correspondence lock-schedule no longer checks: model gives %s" % m, {"case": desc}, failing_input=False)
        ctx.traces += 1


def flock_fault_scenario(ctx, rng, errno_name):
    """the first run is held in a before hook (it holds the lock); the second run's flock() itself fails with an errno other than EAGAIN
    (no lock records, not supported): whatever the reason, a run that has no lock must not touch the storage"""
    with slevel.Sandbox("c16f") as sb:
        H = runs.History(ctx, sb, rng, "C16", 3, 3)
        H.w.populate(nfiles=4)
        H.run(nedits=1)
        H.now += 5
        H.advance()
        marker = sb.path("hook-started")
        cfg = open(sb.cfg).read().replace("        - path: %s" % os.path.join(H.w.src, "item0"),
                                          "        - path: %s\n          before: 'touch %s; sleep 4'" % (os.path.join(H.w.src, "item0"), marker))
        open(sb.cfg, "w").write(cfg)
        tf = sb.path("t1.txt")
        p1 = start_first(sb, H, None, tf)
        ok = wait_for(lambda: os.path.exists(marker))
        time.sleep(0.2)
        mid = storage_listing(H.w.st)
        tf2 = sb.path("t2.txt")
        rc2, out2 = sb.vsb(["backup", "w"], now=H.now + 1, prefix=trace.strace_cmd(tf2, trace.STORAGE_CALLS, inject=["flock:error=%s:when=1" % errno_name]))
        after_second = storage_listing(H.w.st)
        first_running = p1.poll() is None
        out1 = p1.communicate(timeout=60)[0].decode("utf-8", "replace")
        ev2 = trace.parse(tf2)
        main2 = ev2[0]["pid"] if ev2 else None
        ops2 = trace.project([e for e in ev2 if e["pid"] == main2], H.w.st)
        mutating2 = [o for o in ops2 if o["op"] in ("mkdir", "create", "write", "rename", "remove", "open-write") and o.get("rel") is not None and o.get("ok", True)]
        ctx.evaluations += 1
        ctx.count("flock-fault." + errno_name)
        ctx.nontrivial.add(("flock-fault", errno_name, rc2))
        desc = {"second_run_flock_fails_with": errno_name, "second_exit": rc2, "second_errors": slevel.errors_of(out2)[:2], "first_exit": p1.returncode}
        ctx.sample(desc)
        problem = None
        if not ok:
            ctx.violation("schedule", "correspondence lock-schedule no longer checks: the first run could not be held in its hook", {"case": desc}, failing_input=False)
            return
        if rc2 == 0:
            problem = "a second `vsb backup` whose flock() failed with %s went on and exits 0 although the first run had taken the lock" % errno_name
        elif mutating2:
            problem = "a second run without a lock (flock: %s) issued mutating storage calls: %s" % (errno_name, [(o["op"], o["rel"]) for o in mutating2[:3]])
        elif mid != after_second:
            problem = "the storage listing changed while only the lock-less second run was active"
        if problem:
            ctx.violation("exclusion", problem, {"case": desc, "second_output": out2[-600:]})
            return
        if not first_running or p1.returncode != 0:
            ctx.violation("schedule", "correspondence lock-schedule no longer checks: the held first run ended early or exits %d" % p1.returncode,
                          {"case": desc, "first_output": out1[-600:]}, failing_input=False)


def upload_scenario(ctx, rng, point):
    """two `vsb upload` runs with the same configuration file: the second is started while the first waits for a delayed reply of the
    emulator (during listing / during transfer)"""
    from vlib import cloud
    with slevel.Sandbox("c16u") as sb:
        H = runs.History(ctx, sb, rng, "C16", 3, 3)
        H.w.populate(nfiles=3)
        H.w.write_file(os.path.join(H.w.src, H.w.items[0], "keeper"), b"k" * 300)
        H.run(nedits=1)
        cloud.write_upload_config(sb, H.w.st, "dropbox")
        # a second backup with its own upload section in the same configuration file: the lock must cover the whole file, not one backup
        import shutil
        st2 = sb.path("st-second")
        shutil.copytree(H.w.st, st2, symlinks=True)
        cfg = open(sb.cfg).read()
        second = cfg.split("backups:\n", 1)[1].replace("name: t", "name: u").replace("path: %s" % H.w.st, "path: %s" % st2).replace("path: %s" % cloud.CLOUD_ROOT, "path: /Backups/u")
        with open(sb.cfg, "w") as f:
            f.write(cfg + second)
        init = {"dropbox": {cloud.CLOUD_ROOT: {"type": "folder"}, "/Backups/u": {"type": "folder"}}}
        route = "dropbox.list_folder" if point == "upload-listing" else "dropbox.upload_session.append"
        emu = cloud.Emu(sb.path("emu"), init=init, script=[{"when": {"route": route, "nth": 1}, "fault": "delay", "seconds": 3.0}])
        try:
            env = dict(os.environ)
            env.update({"TZ": "UTC", "LC_ALL": "C", "HOME": sb.path("home"), "VSB_VERIF_HTTP_ENDPOINT": emu.endpoint,
                        "LD_PRELOAD": aux.ensure_faketime(), "VERIF_FAKE_TIME": str(H.now + 500)})
            p1 = subprocess.Popen([build.VSB, "-c", sb.cfg, "upload"], stdout=subprocess.PIPE, stderr=subprocess.STDOUT, env=env, cwd=sb.root)
            # the emulator logs a request when it completes: the first run is inside the delayed request once the one before it is logged
            prev = "oauth.dropbox.token" if point == "upload-listing" else "dropbox.upload_session.start"
            ok = wait_for(lambda: any(q["route"] == prev for q in emu.requests()), timeout=10.0)
            time.sleep(0.4)
            n_before = len(emu.requests())
            t0 = time.time()
            p2 = subprocess.run([build.VSB, "-c", sb.cfg, "upload"], stdout=subprocess.PIPE, stderr=subprocess.STDOUT, env=env, cwd=sb.root, timeout=60)
            dt = time.time() - t0
            first_running = p1.poll() is None
            n_after = len(emu.requests())
            out2 = p2.stdout.decode("utf-8", "replace")
            out1 = p1.communicate(timeout=90)[0].decode("utf-8", "replace")
            files = emu.files("dropbox")
        finally:
            emu.stop()
            cloud.kill_agents(sb)
        ctx.evaluations += 1
        ctx.count("pause." + point)
        ctx.nontrivial.add((point, p1.returncode, p2.returncode))
        desc = {"first_paused": point, "first_still_running_when_second_ended": first_running, "second_exit": p2.returncode,
                "second_seconds": round(dt, 2), "second_errors": slevel.errors_of(out2)[:2], "first_exit": p1.returncode}
        ctx.sample(desc)
        if not ok or not first_running:
            ctx.violation("schedule", "correspondence lock-schedule no longer checks: the first upload could not be held at '%s' (ready=%s, running=%s)"
                          % (point, ok, first_running), {"case": desc, "first_output": out1[-600:]}, failing_input=False)
            return
        problem = None
        if p2.returncode == 0:
            problem = "a second `vsb upload` started while the first was held (%s) exits 0" % point
        elif not any("lock" in e.lower() for e in slevel.errors_of(out2)):
            problem = "the second upload fails without a lock error: %s" % slevel.errors_of(out2)[:2]
        elif n_after != n_before:
            problem = "the refused second upload sent %d request(s) to the provider" % (n_after - n_before)
        elif dt > 2.0:
            problem = "the second upload did not fail immediately (%.1f s)" % dt
        if problem:
            ctx.violation("exclusion", problem, {"case": desc, "second_output": out2[-600:]})
            return
        finals = [p for p in files if p.endswith(".tar.gpg") and not os.path.basename(p).startswith(".")]
        if p1.returncode != 0 or slevel.errors_of(out1) or len(finals) != 2:
            ctx.violation("schedule", "correspondence lock-schedule no longer checks: the held first upload ends with exit %d, %s, %d final objects"
                          % (p1.returncode, slevel.errors_of(out1)[:2], len(finals)), {"case": desc, "first_output": out1[-600:]}, failing_input=False)
        ctx.traces += 1


def bracket(ctx, rng):
    """(a): the lock brackets every storage call of a run that removes an old group"""
    with slevel.Sandbox("c16b") as sb:
        H = runs.History(ctx, sb, rng, "C16", 1, 1)
        H.w.populate(nfiles=3)
        for _ in range(2):
            H.run(nedits=1)
            H.now += 86400
        H.advance()
        H.now += 86400
        tf = sb.path("t.txt")
        rc, out = sb.vsb(["backup", "w"], now=H.now, prefix=trace.strace_cmd(tf, trace.STORAGE_CALLS))
        ev = trace.parse(tf)
        main = ev[0]["pid"]
        ops = trace.project([e for e in ev if e["pid"] == main], H.w.st)
        ctx.evaluations += 1
        storage_idx = [i for i, o in enumerate(ops) if o.get("rel") is not None and o["op"] != "flock"]
        locks = [i for i, o in enumerate(ops) if o["op"] == "flock" and o.get("rel") == ""]
        problem = None
        if rc != 0:
            problem = None
        if not locks:
            problem = "the run never takes a flock on the backup root"
        else:
            lk = ops[locks[0]]
            if "LOCK_EX" not in lk["how"] or "LOCK_NB" not in lk["how"]:
                problem = "the lock on the backup root is taken with %s, not exclusive and non-blocking" % lk["how"]
            elif storage_idx and storage_idx[0] < locks[0]:
                problem = "storage call %s precedes the lock" % ops[storage_idx[0]]
            unlocks = [i for i, o in enumerate(ops) if o["op"] == "flock" and "LOCK_UN" in o["how"]]
            if not problem and unlocks and storage_idx and unlocks[0] < storage_idx[-1]:
                problem = "the lock is released before the last storage call (%s)" % ops[storage_idx[-1]]
            removed = [o for o in ops if o["op"] == "remove"]
            ctx.sample({"bracket": {"first_storage_call_after_lock": True, "storage_calls": len(storage_idx), "removals": len(removed)}})
        if problem:
            ctx.violation("bracket", problem, {"ops": [(o["op"], o.get("rel")) for o in ops[:12]]})
        else:
            ctx.nontrivial.add(("bracket", len(storage_idx)))


def run(ctx):
    thorough = ctx.tier == "thorough"
    rng = ctx.rng
    build.ensure_vsb()
    build.ensure_vsbh()
    reps = 4 if thorough else 1
    ctx.rule = ("lock bracket: %d traced run(s) with rotation and removal of an old group; exclusion: a second real run started while the first is "
                "paused at 4 points (after taking the lock, during a before-hook while items are about to be read, during publication, during old-group "
                "removal) x %d, and with the second run reaching the same root through a symbolic link in another configuration file; two `vsb upload` runs with the same configuration file, the second started while the first waits for a delayed reply "
                "of the provider emulator (during listing, during transfer). Non-trivial: "
                "every scenario; distinct by (pause point, exit codes)." % (reps, reps))
    for _ in range(reps):
        bracket(ctx, rng)
        for point in ("after-lock", "reading", "publication", "removal"):
            scenario(ctx, rng, point)
            if ctx.violations:
                return
        for point in (("reading", "publication") if thorough else ("reading",)):
            scenario(ctx, rng, point, alias=True)
            if ctx.violations:
                return
        for errno_name in (("ENOLCK", "ENOSYS", "EOPNOTSUPP", "EINTR") if thorough else ("ENOLCK",)):
            flock_fault_scenario(ctx, rng, errno_name)
            if ctx.violations:
                return
        for point in ("upload-listing", "upload-transfer"):
            upload_scenario(ctx, rng, point)
            if ctx.violations:
                return
    ctx.assumptions += ["flock(2) exclusion between processes is the kernel's", "strace delay_enter pauses the first process inside the chosen call"]


def replay(ctx, doc):
    print("replay: re-run ./check C16")
    return 0
