"""C10 - plain tar+zstd with a truthful one-line-per-file manifest.
Tie (function level): the real MetadataWriter/MetadataReader (through zstd) vs the Gallina codec model.
Tie (storage level): see vlib/storage.py - real `vsb backup` runs decoded by an independent reader."""
from vlib import sexp

U64 = 1 << 64
I127 = 1 << 127


def gen_item(rng):
    hl = rng.choice([64, 64, 64, 0, 1, 20])
    h = [rng.randrange(256) for _ in range(hl)]
    big = lambda: rng.choice([0, 1, 9, 10, 255, 4096, U64 - 1, rng.randrange(U64), rng.randrange(1 << 20)])
    m = rng.choice([0, 1, -1, 10 ** 9, -10 ** 18, I127 - 1, -I127, rng.randrange(-I127, I127), rng.randrange(0, 2 * 10 ** 18)])
    path = rng.choice(["/a", "/a b/c", "/sp  ace/ x", "/é/ü", "/" + "n" * 300, "/a\tb", "relative", " lead", "/trail ", "/x:y", "/-", "/ z"])
    if rng.random() < 0.3:
        path = "/" + "".join(rng.choice(["a", "b", " ", "é", "/", ".", ":", "-", "\t", "x"]) for _ in range(rng.randrange(1, 30)))
    return [int(rng.random() < 0.5), h, big(), big(), sexp.Z(m), big(), list(path.encode())]


def render(it):
    m = sexp.unZ(it[4])
    return ("%s %s %d:%d:%d %d " % ("unique" if it[0] else "extern", bytes(it[1]).hex(), it[2], it[3], m, it[5])).encode() + bytes(it[6])


def mutate_line(rng, line):
    s = line.decode("utf-8", "replace")
    k = rng.randrange(14)
    if k == 0:
        s = s.replace(" ", "  ", 1)
    elif k == 1:
        s = s.upper()
    elif k == 2:
        parts = s.split(" ")
        del parts[rng.randrange(min(4, len(parts)))]
        s = " ".join(parts)
    elif k == 3:
        s = s.replace(":", "::", 1)
    elif k == 4:
        s = s.replace(":", ":+", 1)
    elif k == 5:
        s = s.replace(":", ":-", 1)
    elif k == 6:
        s = s + "\r"
    elif k == 7:
        s = "\r" + s
    elif k == 8:
        s = s.replace("unique", "uniq").replace("extern", "external")
    elif k == 9:
        parts = s.split(" ")
        if len(parts) > 3:
            parts[3] = rng.choice(["+5", "05", "-1", str(U64), str(U64 - 1), "", "5x", "0x5", "1e3", " 7"])
        s = " ".join(parts)
    elif k == 10:
        parts = s.split(" ")
        if len(parts) > 2:
            parts[2] = rng.choice(["1:2", "1:2:3:4", ":2:3", "1::3", "1:2:", str(U64) + ":1:1", "1:2:" + str(I127), "1:2:-" + str(I127), "1:2:-" + str(I127 + 1),
                                   "+1:+2:+3", "-1:2:3", "01:002:-03", "1:2:--3", "a:b:c"])
        s = " ".join(parts)
    elif k == 11:
        parts = s.split(" ")
        if len(parts) > 1:
            parts[1] = rng.choice(["", "a", "abc", "zz", "AB", "aB", "0" * 128, "ab" * 64 + "c"])
        s = " ".join(parts)
    elif k == 12:
        s = s.replace(" ", "\t", 1)
    else:
        i = rng.randrange(len(s) + 1)
        s = s[:i] + rng.choice([" ", ":", "-", "+", "0", "z", "\r"]) + s[i:]
    return s.encode()


def py_parse_line(line):
    """Independent reading of the documented format `status hash device:inode:mtime_ns size path`."""
    parts = line.split(b" ", 4)
    if len(parts) != 5:
        return None
    st, h, fp, sz, path = parts
    d, i, m = fp.split(b":")
    return [1 if st == b"unique" else 0, list(bytes.fromhex(h.decode())), int(d), int(i), sexp.Z(int(m)), int(sz), list(path)]


def run(ctx):
    thorough = ctx.tier == "thorough"
    rng = ctx.rng
    n_enc, n_dec = (2000, 3000) if thorough else (300, 500)
    ctx.rule = ("writer: %d generated manifests of 1..6 items (hash lengths 0/1/20/64, u64 and i128 boundary values, negative mtimes, paths with "
                "spaces, tabs, unicode, 300 bytes); reader: %d generated texts whose lines are valid renderings or single mutations of them "
                "(case, doubled separators, dropped fields, signs, boundary values +-1, CR placement, missing final newline, CRLF). "
                "Non-trivial: at least one line; distinct by text." % (n_enc, n_dec))
    enc_cases = []
    for _ in range(n_enc):
        enc_cases.append([1000, [[gen_item(rng) for _ in range(rng.randrange(1, 7))]]])

    def enc_ok(c, r):
        if r[0] != 0:
            return False, "the writer path failed with code %s on well-formed items" % r[0]
        text = bytes(r[1])
        lines = text.split(b"\n")
        if lines[-1] != b"":
            return False, "manifest does not end with a newline"
        lines = lines[:-1]
        items = c[1][0]
        if len(lines) != len(items):
            return False, "%d items produced %d lines" % (len(items), len(lines))
        for it, ln in zip(items, lines):
            try:
                got = py_parse_line(ln)
            except Exception as e:
                got = "unparsable (%s)" % e
            if got != it:
                return False, "line %r does not read back as the item %r in the documented format" % (ln[:120], it)
        return True, ""

    ctx.correspond("manifest-writer", enc_cases, lambda c, m: m, lambda c, r: r, enc_ok,
                   nontrivial=lambda c, m: sexp.dumps(c[1])[:400],
                   describe=lambda c: {"items": [render(it).decode("utf-8", "replace")[:100] for it in c[1][0][:2]]})
    dec_cases = []
    for _ in range(n_dec):
        lines = []
        for _ in range(rng.randrange(1, 5)):
            ln = render(gen_item(rng))
            if rng.random() < 0.6:
                ln = mutate_line(rng, ln)
            lines.append(ln)
        sep = b"\r\n" if rng.random() < 0.1 else b"\n"
        text = sep.join(lines) + (b"" if rng.random() < 0.2 else sep)
        if rng.random() < 0.05:
            text = text + b"\n\n"
        try:
            text.decode("utf-8")
        except UnicodeDecodeError:
            continue
        dec_cases.append([1001, [list(text)]])
    mres, ires = ctx.correspond("manifest-reader", dec_cases, lambda c, m: m, lambda c, r: r, None,
                                nontrivial=lambda c, m: bytes(c[1][0]).hex()[:400],
                                describe=lambda c: {"text": bytes(c[1][0]).decode("utf-8", "replace")[:160]})
    acc = sum(1 for m in mres for l in m[1] if l[0] == 1)
    rej = sum(1 for m in mres for l in m[1] if l[0] == 0)
    ctx.count("reader.lines_accepted", acc)
    ctx.count("reader.lines_rejected", rej)
    ctx.notes.append("UTF-8 validity: lines that are not valid UTF-8 make the real reader fail; the model works on bytes and the generator "
                     "produces valid UTF-8 only")
    from vlib import storage
    storage.run_c10(ctx)
    # truthfulness of size / hash for files that change while being read: the real binary with a deterministic concurrent writer
    from vlib import dynrun, build
    build.ensure_vsb()
    dynrun.sweep(ctx, ctx.rng, 400 if ctx.tier == "thorough" else 40, {"C10"})
    ctx.notes.append("files changing during the run: %s scheduled concurrent-writer runs (vlib/dynrun.py), clauses 'entries and lines correspond in order', "
                     "'the first size bytes of a unique entry hash to hash', 'an extern entry is empty'" % (400 if ctx.tier == "thorough" else 40))
    if not ctx.has_failing_input():
        odd_names_part(ctx)
    ctx.assumptions += ["zstd and tar crates / python tarfile implement the formats (decodability with standard tools is observed, not proved)"]


def odd_names_part(ctx):
    """a tree with files whose names hold a carriage return or a line feed: the one-line-per-file manifest cannot carry them (a line-wise reader
    - vsb's own BufRead::lines among them - does not read such a path back), so they must be refused with an error and every line that IS
    written must be free of CR / LF; whatever is published must restore with `vsb restore` to exactly the files its manifest names"""
    import os
    import shutil
    from vlib import build, runs, slevel
    build.ensure_vsb()
    build.ensure_vsbh()
    rng = ctx.rng
    with slevel.Sandbox("c10n") as sb:
        w = runs.World(sb, rng, 3, 3)
        top = os.path.join(w.src, w.items[0])
        w.write_file(os.path.join(top, "a.txt"), b"plain")
        w.write_file(os.path.join(top, "keeper"), b"k" * 100)
        odd = [b"notes.txt\r", b"mid\rdle.txt", b"line\nfeed", b"crlf\r\n"]
        for nm in odd:
            with open(os.path.join(os.fsencode(top), nm), "wb") as f:
                f.write(b"odd name " + nm)
        res = w.backup(runs.BASE + 3600)
        ctx.evaluations += 1
        ctx.count("odd-names.runs")
        dec = w.decode()
        la, _ = runs.listing(dec)
        finals = [(g, b) for g, fin, _, _ in la for b in fin]
        if res["exit"] == 0:
            ctx.violation("odd-names", "a tree with file names holding CR / LF is backed up with exit 0 (such names cannot be recorded in a one-line-per-file manifest)",
                          {"names": [n.decode("latin-1") for n in odd], "output": res["out"][-500:]})
            return
        if not finals:
            return          # nothing published: nothing to examine
        g, b = finals[-1]
        ent = [e for gg in dec["groups"] if gg["name"] == g for e in gg["entries"] if e["name"] == b][0]
        lines = runs.parse_manifest(ent)
        if lines is None:
            ctx.violation("odd-names", "the backup published from a tree with CR / LF names has a manifest that does not parse", {"backup": b})
            return
        for l in lines:
            if b"\r" in bytes(l["path"]) or b"\n" in bytes(l["path"]):
                ctx.violation("odd-names", "the manifest of %s holds the path %r: a carriage return / line feed inside a one-line-per-file record - a line-wise reader "
                              "(vsb's own) reads another path back than the archive entry bears" % (b, bytes(l["path"])), {"backup": b, "path_hex": bytes(l["path"]).hex()})
                return
        out = sb.path("restored")
        rc, text = sb.vsb(["restore", os.path.join(w.st, g, b), out])
        ctx.evaluations += 1
        if rc != 0:
            ctx.violation("odd-names", "the backup published from a tree with CR / LF names does not restore (exit %d): %s" % (rc, slevel.errors_of(text)[:2]), {"backup": b})
        shutil.rmtree(out, ignore_errors=True)


def replay(ctx, doc):
    if "rules" in doc:
        from vlib import dynrun
        return dynrun.replay_case(ctx, doc, {"C10"})
    if "case" not in doc and "first_differing_case" not in doc:
        print("replay: re-run ./check C10 with the same VERIF_SEED; the scenario is in the replay file")
        return 0
    from vlib import impl, model
    c = sexp.loads(doc.get("case") or doc.get("first_differing_case"))
    r = impl.run_lines([c])[0]
    m = model.run_driver([c])[0]
    print("implementation:", r)
    print("model:         ", m)
    if r != m:
        ctx.violation("replay", "model and implementation differ", {"case": sexp.dumps(c)}, failing_input=False)
    return 0
