"""C19 - before/after hooks bracket each item exactly once, even on failure.
Tie: real `vsb backup` runs over generated item lists (hooks present / absent / failing / unstartable; items missing,
overlapping, aborting with an injected read error) are traced (execve of the hook commands, every access at or below
an item root); the observed order of hook and item events, the hook log and the exit status are compared with the
Gallina model of Backuper::run."""
import os

from vlib import build, model, slevel, walkrun, trace

NOW = 1700000000


def gen_items(rng):
    n = rng.randrange(1, 5)
    items = []
    for i in range(n):
        r = rng.random()
        tree = walkrun.gen_tree(rng, allow_special=False)
        if tree["kind"] != "dir":
            tree = {"kind": "dir", "children": [(1, tree)], "fault": "none"}
        kind = "ok"
        if r < 0.15:
            kind = "missing"
        elif r < 0.25 and i > 0:
            kind = "overlap"
        item = {"before": rng.choice([None, True, True, False]), "after": rng.choice([None, True, True, False]), "tree": tree, "kind": kind}
        # now and then the item's path comes into being only in its (succeeding) before hook
        if kind == "ok" and item["before"] is True and rng.random() < 0.4:
            item["late"] = True
        items.append(item)
    return items


def run_case(ctx, rng, sb, items, nobash=False, abort_item=None):
    # materialise: missing items have no tree on disk; overlapping items point inside item 0
    real_items = []
    for it in items:
        real_items.append({"before": it["before"], "after": it["after"], "tree": it["tree"] if it["kind"] == "ok" else None, "late": it.get("late", False)})
    # half of the runs start from a storage whose only group is due for rotation (limit: one group), so that the deletion of old
    # groups happens in the same run as the hook failures
    rotation = rng.random() < 0.5
    ctx.count("storage.rotation-due" if rotation else "storage.fresh")
    case = walkrun.WalkCase(sb, real_items, fail_seed=rng.randrange(4), rotation=rotation)
    for i, it in enumerate(items):
        if it["kind"] == "overlap" and real_items[0]["tree"] is not None:
            # an alias of item 0: canonicalises to the same directory, hence "intersects with previously backed up path"
            alias = os.path.join(case.src, "alias%d" % i)
            os.symlink(case.roots[0], alias)
            case.roots[i] = alias
    case.write_config()
    env = {"PATH": "/nonexistent-dir-for-hooks"} if nobash else None
    inject = None
    model_items = []
    for i, it in enumerate(items):
        mi = {"before": it["before"], "after": it["after"], "tree": real_items[i]["tree"]}
        if it["kind"] == "overlap" and real_items[0]["tree"] is None:
            mi["tree"] = None
        if nobash:
            mi["before"] = None if it["before"] is None else False
            mi["after"] = None if it["after"] is None else False
            if it.get("late"):
                mi["tree"] = None       # the hook that would have prepared the path cannot be started: the item is missing
        model_items.append(mi)
    if abort_item is not None:
        # reference run to locate the read of the chosen file, then inject EIO there
        i, path, rel = abort_item
        rc0, out0, ev0 = run(case, env, None)
        inj = case.find_injection(ev0, path, "file", "readerr")
        if inj is None:
            return None
        inject = ["%s:error=%s:when=%d" % inj]
        node = model_items[i]["tree"]
        for n in rel:
            node = dict(node["children"])[n]
        node["fault"] = "readerr"
        # the storage of the reference run must not influence the faulted run's dedup (read pattern): wipe it
        import shutil
        case.reset_storage()
    rc, out, ev = run(case, env, inject)
    wire = [1900, [[[walkrun.hook_wire(m["before"]), walkrun.hook_wire(m["after"]), [walkrun.wire_node(m["tree"])] if m["tree"] is not None else []]
                    for m in model_items]]]
    mres = model.run_driver([wire])[0]
    exp = walkrun.model_skeleton(mres)
    got = case.skeleton(ev)
    hooks_logged = open(case.log).read().split() if os.path.exists(case.log) else []
    desc = {"items": [{"before": m["before"], "after": m["after"], "kind": it["kind"]} for m, it in zip(model_items, items)],
            "unstartable_hooks": nobash, "rotation_due": rotation, "aborting_item": abort_item[0] if abort_item else None}
    ctx.evaluations += 1
    ctx.nontrivial.add(repr((desc, exp)))
    ctx.sample({"case": desc, "observed": got, "exit": rc})
    # ---- the property on the real run ----
    started = sorted({i for _, i in got})
    problem = None
    for i in started:
        seq = [t for t, j in got if j == i]
        it = model_items[i]
        prepared = it["tree"] is not None and items[i]["kind"] == "ok"
        want = (["B"] if it["before"] is not None else []) + (["W"] if prepared else []) + (["A"] if it["after"] is not None else [])
        if seq != want:
            problem = "item %d: observed order %s, expected %s (before exactly once before any of the item's paths are read, after exactly once after the last)" % (i, seq, want)
            break
    if not problem and [j for _, j in got] != sorted(j for _, j in got):
        problem = "items are not processed in configuration order: %s" % got
    if not problem and not nobash:
        for i in started:
            it = model_items[i]
            for tag, h in (("B", it["before"]), ("A", it["after"])):
                c = hooks_logged.count("%s%d" % (tag, i))
                if h is not None and c != 1:
                    problem = "hook %s of item %d ran %d times" % ("before" if tag == "B" else "after", i, c)
    bad_hook = any((m["before"] is False or m["after"] is False) for i, m in enumerate(model_items) if i in started)
    if not problem and bad_hook and rc == 0:
        problem = "a hook failed or could not be started but the run exits 0"
    if problem:
        ctx.violation("hooks", problem, {"case": desc, "observed": got, "hook_log": hooks_logged, "exit": rc, "output": out[-600:]})
        return False
    if got != exp or (rc == 0) != bool(mres[3]):
        ctx.violation("hooks-model", "correspondence hooks-trace no longer checks: observed %s exit %d, model %s ok=%s" % (got, rc, exp, mres[3]),
                      {"case": desc, "output": out[-600:]}, failing_input=False)
        return False
    ctx.traces += 1
    return True


def run_check(ctx):
    thorough = ctx.tier == "thorough"
    rng = ctx.rng
    n = 400 if thorough else 36
    ctx.rule = ("%d generated item lists of 1..4 items: each hook absent / succeeding / failing (exit 3 or death from SIGKILL / SIGTERM / SIGSEGV); half of the runs start from a storage whose old group is due for rotation; items present, missing, or overlapping a "
                "previous item; a sixth of the cases run with no bash on PATH (hooks cannot be started); a fifth have an item whose backup aborts with "
                "EIO injected into the read of one of its files. Non-trivial: every case; distinct by (configuration, expected order)." % n)
    for k in range(n):
        items = gen_items(rng)
        with slevel.Sandbox("c19") as sb:
            nobash = rng.random() < 0.16
            abort = None
            if not nobash and rng.random() < 0.2:
                # choose a non-empty file of an existing item
                cands = []
                for i, it in enumerate(items):
                    if it["kind"] == "ok":
                        for path, node in walkrun.nodes_of(it["tree"]):
                            if node["kind"] == "file" and len(node["data"]) > 0:
                                cands.append((i, path))
                if cands:
                    i, rel = rng.choice(cands)
                    abort = (i, os.path.join(sb.path("src"), "item%d" % i, *[walkrun.name_of(x) for x in rel]), rel)
            ctx.count("case." + ("unstartable-hooks" if nobash else "aborting-item" if abort else "plain"))
            ok = run_case(ctx, rng, sb, items, nobash=nobash, abort_item=abort)
            if ok is None:
                ctx.count("case.skipped")
        if len(ctx.violations) >= 3:
            break


def run(ctx_or_case, env=None, inject=None):
    # dispatcher: the runner calls run(ctx); run_case calls run(case, env, inject)
    if isinstance(ctx_or_case, walkrun.WalkCase):
        return _run_traced(ctx_or_case, env, inject)
    build.ensure_vsb()
    build.ensure_vsbh()
    run_check(ctx_or_case)
    ctx_or_case.assumptions += ["bash executes the configured command; strace reports execve and path accesses in issue order"]


def _run_traced(case, env, inject):
    import shutil
    tf = case.sb.path("walk-trace.txt")
    if os.path.exists(tf):
        os.remove(tf)
    if os.path.exists(case.log):
        os.remove(case.log)
    strace = shutil.which("strace")
    prefix = [strace] + trace.strace_cmd(tf, walkrun.TRACE_CALLS, inject=inject)[1:]
    rc, out = case.sb.vsb(["backup", "w"], now=NOW, prefix=prefix, env=env)
    return rc, out, trace.parse(tf)


def replay(ctx, doc):
    print("replay: re-run ./check C19 with the same VERIF_SEED; the configuration is in the replay file under 'case'")
    return 0
