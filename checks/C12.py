"""C12 - a backup is durable before it is named and before anything older is deleted.
Tie: the real `vsb backup` is traced (strace -f -y) in scenarios with / without group rotation, old-group removal and
an abandoned temporary; its storage-side calls are projected to the abstract operations of the persistence model
(mkdir / create / write / fsync file / fsync backup directory / rename / fsync group / removals / success report);
the projected trace must have the shape the model's vsb_run describes and must be accepted by the verified checker
durable_ok, whose soundness theorem turns acceptance into crash safety at every prefix."""
import os
import re
import time

from vlib import build, runs, slevel, trace, model, sexp

CODES = {"mkdir": "M", "create-meta": "c", "create-data": "C", "write-meta": "w", "write-data": "W", "fsync-meta": "s", "fsync-data": "S",
         "fsync-dir": "D", "rename": "R", "fsync-group": "G", "rm-temp": "t", "rm-other": "O", "report": "K"}
SHAPE = re.compile(r"^t*McC[wW]*s[W]*SDRGO?K$")
SHAPE_SOFT = re.compile(r"^t*McC[wW]*s[W]*SDRGO?$")


def abstract(ops, group, names):
    """projected storage ops -> (wire ops, code string, details)"""
    out, codes = [], ""
    rm_temps = set()
    rm_other = False

    def nm(n):
        t = 1 if n.startswith(".") else 0
        return [t, names.setdefault(n.lstrip("."), len(names) + 1)]

    for o in ops:
        if o["op"] in ("exit", "exit_group"):
            if o["op"] == "exit_group" and o["status"] == 0:
                out.append([9])
                codes += "K"
            continue
        r = o.get("rel")
        if r is None or not o.get("ok", True):
            continue
        parts = r.split("/")
        if o["op"] == "remove":
            if parts[0] != group:
                if not rm_other and parts[0]:
                    rm_other = True
                    out.append([8])
                    codes += "O"
            elif len(parts) >= 2 and parts[1].startswith("."):
                if parts[1] not in rm_temps:
                    rm_temps.add(parts[1])
                    out.append([7] + nm(parts[1]))
                    codes += "t"
            continue
        if parts[0] != group:
            continue
        if o["op"] == "mkdir" and len(parts) == 2:
            out.append([0] + nm(parts[1]))
            codes += "M"
        elif o["op"] == "create" and len(parts) == 3:
            f = 0 if parts[2] == "metadata.zst" else 1
            out.append([1] + nm(parts[1]) + [f])
            codes += "c" if f == 0 else "C"
        elif o["op"] == "write" and len(parts) == 3:
            f = 0 if parts[2] == "metadata.zst" else 1
            out.append([2] + nm(parts[1]) + [f, o["n"]])
            codes += "w" if f == 0 else "W"
        elif o["op"] == "fsync":
            if len(parts) == 3:
                f = 0 if parts[2] == "metadata.zst" else 1
                out.append([3] + nm(parts[1]) + [f])
                codes += "s" if f == 0 else "S"
            elif len(parts) == 2:
                out.append([4] + nm(parts[1]))
                codes += "D"
            elif len(parts) == 1:
                out.append([6])
                codes += "G"
        elif o["op"] == "rename" and o.get("to"):
            tp = o["to"].split("/")
            if len(parts) == 2 and len(tp) == 2:
                out.append([5] + nm(parts[1]) + nm(tp[1]))
                codes += "R"
    return out, codes


def scenario(ctx, rng, kind, exe=None, fault=None, delay=None):
    """fault = (syscall, errno, ordinal among the calls of that name on storage paths): the run meets one failing storage call"""
    with slevel.Sandbox("c12") as sb:
        if kind == "first":
            H = runs.History(ctx, sb, rng, "C12", 3, 3)
            pre = 0
        elif kind == "append":
            H = runs.History(ctx, sb, rng, "C12", 3, 4)
            pre = rng.randrange(1, 3)
        elif kind == "rotate":
            H = runs.History(ctx, sb, rng, "C12", 1, 1)
            pre = 2
        elif kind in ("softerr-item", "softerr-hook"):
            # a run with an error that does not stop it (a configured item that does not exist; a failing after hook): it exits non-zero and
            # still publishes - what it publishes must be as durable as any other backup
            H = runs.History(ctx, sb, rng, "C12", 3, 4)
            pre = 1
        else:   # abandoned temporary in the group that is reused
            H = runs.History(ctx, sb, rng, "C12", 3, 4)
            pre = 1
        H.w.populate(nfiles=rng.randrange(2, 9))
        for _ in range(pre):
            H.run(nedits=1)
            H.now += 86400 if kind == "rotate" else 5
        if kind == "temp":
            la, _ = runs.listing(H.dec)
            g = la[-1][0]
            tname = "." + time.strftime("%Y.%m.%d-%H:%M:%S", time.gmtime(H.now - 3))
            os.makedirs(os.path.join(H.w.st, g, tname))
            open(os.path.join(H.w.st, g, tname, "data.tar.zst"), "w").close()
            H.dec = H.w.decode()
        for _ in range(rng.randrange(0, 3)):
            H.w.edit()
        H.advance()
        if kind == "softerr-item":
            H.w.items.append("item-that-does-not-exist")
            H.w.filters.append(None)
            H.w.write_config()
        elif kind == "softerr-hook":
            cfg = open(sb.cfg).read().replace("        - path: %s" % os.path.join(H.w.src, "item0"),
                                              "        - path: %s\n          after: 'exit 3'" % os.path.join(H.w.src, "item0"))
            open(sb.cfg, "w").write(cfg)
        before, _ = runs.listing(H.dec)
        name = H.name_of_now()
        tf = sb.path("trace.txt")
        inject = None
        if fault is not None:
            # the ordinal counts every call of that name in the process; locate the k-th one on a storage path in a dry reference run
            # on a copy of the storage
            import shutil
            ref_st = sb.path("refcopy")
            shutil.copytree(H.w.st, ref_st, symlinks=True)
            tf0 = sb.path("trace0.txt")
            rc0, out0 = sb.vsb(["backup", "w"], now=H.now, prefix=trace.strace_cmd(tf0, trace.STORAGE_CALLS), exe=exe)
            ev0 = trace.parse(tf0)
            pid0 = ev0[0]["pid"] if ev0 else None
            allc = [e for e in ev0 if e.get("name") == fault[0] and e["pid"] == pid0]
            onst = [i for i, e in enumerate(allc, 1) if H.w.st in e.get("raw", "")]
            # restore the storage to its state before the reference run
            shutil.rmtree(H.w.st)
            os.rename(ref_st, H.w.st)
            if fault[2] >= len(onst):
                ctx.count("fault.no-such-call")
                return
            inject = ["%s:error=%s:when=%d" % (fault[0], fault[1], onst[fault[2]])]
        if delay is not None:
            inject = ["fsync:delay_exit=1500000:when=%d" % delay]
            ctx.count("scenario.%s.slow-fsync-%d" % (kind, delay))
        rc, out = sb.vsb(["backup", "w"], now=H.now, prefix=trace.strace_cmd(tf, trace.STORAGE_CALLS, inject=inject), exe=exe)
        events = trace.parse(tf)
        main_pid = events[0]["pid"] if events else None
        # all threads of the run, in completion order (strace -f lists them as separate ids); only the main thread's exit status counts
        ops = trace.project([e for e in events if e["pid"] == main_pid or e.get("name") != "exit_group"], H.w.st)
        after, _ = runs.listing(H.w.decode())
        groups_with = [g for g, fin, _, _ in after if name in fin]
        ctx.evaluations += 1
        ctx.count("scenario." + kind + (".fault-%s-%d" % (fault[0], fault[2]) if fault else ""))
        if fault is not None:
            # a run that met a failing storage call: whatever it went on to do must still be crash-safe at every point, and it must not
            # report success over operations that did not happen
            group = groups_with[0] if groups_with else (before[-1][0] if before and kind != "rotate" else time.strftime("%Y.%m.%d", time.gmtime(H.now)))
            names = {}
            gb = [x for x in before if x[0] == group]
            finals = [names.setdefault(n, len(names) + 1) for n in (gb[0][1] if gb else [])]
            temps = [names.setdefault(n.lstrip("."), len(names) + 1) for n in (gb[0][2] if gb else [])]
            wire, codes = abstract(ops, group, names)
            short = re.sub(r"w+", "w", re.sub(r"W+", "W", codes))
            failed = [o for o in ops if o.get("rel") is not None and not o.get("ok", True) and o["op"] == ("fsync" if fault[0] == "fsync" else o["op"])]
            ctx.nontrivial.add((kind, "fault", fault, short))
            res = model.run_driver([[1200, [finals, temps, wire]]])[0]
            desc = {"scenario": kind, "fault": list(fault), "group": group, "ops": short, "exit": rc, "failed_calls": len(failed)}
            ctx.sample(desc)
            if res[0] != 0 or not res[1]:
                k = res[2] if res[0] == 0 else -1
                ctx.violation("durable-fault", "with %s #%d on the storage failing (%s), the run goes on to operations that are NOT crash-safe: the durability checker rejects "
                              "operation %d (%s) of the projected trace %s (failed calls flush nothing); exit status %d"
                              % (fault[0], fault[2] + 1, fault[1], k, wire[k] if 0 <= k < len(wire) else "?", short, rc),
                              {"case": desc, "ops": wire, "rejected_at": k, "codes": codes, "output": out[-500:]})
            ctx.traces += 1
            return
        if (rc != 0 and not kind.startswith("softerr")) or not groups_with or (kind.startswith("softerr") and rc == 0):
            ctx.violation("trace", "scenario %s: the run did not publish%s (exit %d)" % (kind, " with a non-zero exit status" if kind.startswith("softerr") else "", rc),
                          {"output": out[-600:]}, failing_input=False)
            return
        group = groups_with[0]
        names = {}
        gb = [x for x in before if x[0] == group]
        finals = [names.setdefault(n, len(names) + 1) for n in (gb[0][1] if gb else [])]
        temps = [names.setdefault(n.lstrip("."), len(names) + 1) for n in (gb[0][2] if gb else [])]
        wire, codes = abstract(ops, group, names)
        short = re.sub(r"w+", "w", re.sub(r"W+", "W", codes))
        ctx.nontrivial.add((kind, short, len(wire)))
        res = model.run_driver([[1200, [finals, temps, wire]]])[0]
        ctx.count("trace.ops", len(wire))
        desc = {"scenario": kind, "group": group, "backup": name, "ops": short, "finals_before": len(finals), "temporaries_before": len(temps),
                "removed_other_group": "O" in codes}
        ctx.sample(desc)
        if res[0] != 0 or not res[1]:
            k = res[2] if res[0] == 0 else -1
            what = ("the storage operations of the run are NOT crash-safe: the durability checker rejects operation %d (%s) of the projected trace %s - "
                    "a power loss at that point can expose a final-named backup with missing content or lose both the new backup and a group it replaced"
                    % (k, wire[k] if 0 <= k < len(wire) else "?", short))
            ctx.violation("durable", what, {"case": desc, "ops": wire, "rejected_at": k, "codes": codes})
            return
        # a run that met a non-fatal error publishes in the same way but ends without the success report (K)
        if not (SHAPE_SOFT if kind.startswith("softerr") else SHAPE).match(codes):
            ctx.violation("trace-shape", "correspondence trace-shape no longer checks: projected operations %s do not have the shape t* M c C (w|W)* s W* S D R G O? K "
                          "of the model's vsb_run (still accepted by the durability checker)" % short, {"case": desc, "codes": codes}, failing_input=False)
        ctx.traces += 1


def run(ctx):
    thorough = ctx.tier == "thorough"
    rng = ctx.rng
    build.ensure_vsb()
    build.ensure_vsbh()
    reps = 8 if thorough else 2
    ctx.rule = ("6 scenarios (a run with a non-fatal error - missing item, failing hook - that still publishes; first backup in an empty storage; append to the newest group; rotation with removal of the old group, limits 1x1; "
                "reuse of a group holding an abandoned temporary) x %d generated trees each%s; plus runs in which one storage call fails (each of the four "
                "fsyncs, the rename%s; located by ordinal in a reference run on a copy of the storage, injected with strace) - a failed call flushes "
                "nothing and what the run does afterwards must still pass the checker; every run is traced and its storage-side calls "
                "projected to abstract operations. Non-trivial: every traced run; distinct by (scenario, operation pattern, number of operations)."
                % (reps, ", debug and release builds" if thorough else "", ", writes, an open" if thorough else ""))
    exes = [None]
    if thorough:
        exes.append(build.ensure_vsb(release=True))
    for exe in exes:
        for kind in ("first", "append", "rotate", "temp", "softerr-item", "softerr-hook"):
            for _ in range(reps):
                scenario(ctx, rng, kind, exe)
                if len(ctx.violations) >= 3:
                    return
        # one failing storage call per run: each of the four fsyncs, the rename, and (thorough) a write
        # a slow flush: each of the four fsyncs in turn takes 1.5 s to return (nothing fails) - code that flushes in the background
        # must still have waited before it renames, removes or reports
        for k in range(1, 5):
            scenario(ctx, rng, "rotate", exe, delay=k)
            if len(ctx.violations) >= 3:
                return
        faults = [("fsync", "EIO", k) for k in range(4)] + [("rename", "EIO", 0)]
        if thorough:
            faults += [("write", "ENOSPC", 0), ("write", "EIO", 1), ("fdatasync", "EIO", 0), ("openat", "EACCES", 3)]
        for kind in (("rotate", "append", "temp") if thorough else ("rotate",)):
            for f in faults:
                scenario(ctx, rng, kind, exe, fault=f)
                if len(ctx.violations) >= 3:
                    return
    ctx.assumptions += ["the kernel honours fsync: file data persists by fsync(file), directory entries by fsync(directory) - the property's own model",
                        "creation of a new group directory is assumed persisted by the file system (as the property states)",
                        "strace -f -y reports every storage call of the process with the path of its descriptor"]


def replay(ctx, doc):
    c = [1200, [[], [], doc.get("ops", [])]]
    print("model verdict on the recorded operations:", model.run_driver([c])[0])
    return 0
