"""C15 - files changing during a run never corrupt the backup.
Tie (function level): the real FileReader over a scripted reader (short reads, early EOF, data after EOF, I/O error)
vs the Gallina model; the entry must have exactly the declared size, real bytes then zeros, count and digest of the
real bytes."""
import hashlib
import itertools
import os

from vlib import sexp


def expected(case, m):
    if m[0] == 1:
        return ["failed"]
    if m[0] != 0:
        return ["model-error", m]
    return [bytes(m[1]).hex(), hashlib.sha512(bytes(m[2])).hexdigest(), m[3]]


def observed(case, r):
    if r[0] == 1:
        return ["failed"]
    if r[0] != 0:
        return ["impl-error", r]
    return [bytes(r[1]).hex(), bytes(r[2]).decode(), r[3]]


def prop_ok(case, r):
    size, script, bufs = case[1]
    desc = "declared size %d, script %s, buffers %s" % (size, [("data", len(i[1])) if i[0] == 0 else ("eof" if i[0] == 1 else "error") for i in script], bufs)
    if r[0] == 1:
        if any(i[0] == 2 for i in script):
            return True, ""
        return False, "reader failed without an I/O error in the script (%s)" % desc
    if r[0] != 0:
        return False, "harness reported %s (%s)" % (r, desc)
    out, hx, n = bytes(r[1]), bytes(r[2]).decode(), r[3]
    if len(out) != size:
        return False, "entry has %d bytes, declared size is %d (%s)" % (len(out), size, desc)
    if n > size:
        return False, "bytes_read %d exceeds the declared size (%s)" % (n, desc)
    if any(out[n:]):
        return False, "bytes after the %d real ones are not zero padding (%s)" % (n, desc)
    if hashlib.sha512(out[:n]).hexdigest() != hx:
        return False, "recorded hash is not the SHA-512 of the first %d bytes of the entry (%s)" % (n, desc)
    src = b"".join(bytes(i[1]) for i in script if i[0] == 0)
    if not src.startswith(out[:n]):
        return False, "the %d real bytes are not a prefix of what the file delivered (%s)" % (n, desc)
    return True, ""


def describe(c):
    size, script, bufs = c[1]
    return {"declared_size": size, "script": [["data", len(i[1])] if i[0] == 0 else (["eof"] if i[0] == 1 else ["io-error"]) for i in script],
            "buffer_sizes": bufs}


def run(ctx):
    thorough = ctx.tier == "thorough"
    maxsize, maxitems = (7, 4) if thorough else (6, 3)
    ctx.rule = ("exhaustive: declared sizes 0..%d x scripts of up to %d read results (data of 1..3 bytes, EOF, I/O error; an exhausted "
                "script is EOF) x buffer sizes {1,2,3,4,(1,3)}; random larger cases (sizes up to 10000 around the 4096 threshold). "
                "Non-trivial: declared size > 0; distinct by the whole case." % (maxsize, maxitems))
    cases = []
    k = [0]

    def data(n):
        k[0] += 1
        return [0, [(k[0] * 17 + i * 3 + 1) % 255 + 1 for i in range(n)]]

    items = ["d1", "d2", "d3", "eof", "err"]
    scripts = [()]
    for n in range(1, maxitems + 1):
        scripts += list(itertools.product(items, repeat=n))
    for size in range(0, maxsize + 1):
        for sc in scripts:
            script = [data(int(x[1])) if x[0] == "d" else ([1] if x == "eof" else [2]) for x in sc]
            for bufs in ([1], [2], [3], [4], [1, 3]):
                cases.append([1500, [size, script, bufs]])
    if not thorough:
        cases = [c for i, c in enumerate(cases) if i % 3 == ctx.seed % 3] + cases[:200]
    for _ in range(2000 if thorough else 150):
        size = ctx.rng.choice([0, 1, 100, 4095, 4096, 4097, 8192, ctx.rng.randrange(0, 10000)])
        script = []
        for _ in range(ctx.rng.randrange(0, 6)):
            r = ctx.rng.random()
            if r < 0.7:
                n = ctx.rng.choice([1, 100, 4096, size or 1, max(1, size // 2), size + 5])
                script.append([0, [ctx.rng.randrange(256) for _ in range(n)]])
            elif r < 0.9:
                script.append([1])
            else:
                script.append([2])
        bufs = [ctx.rng.choice([1, 7, 512, 4096, 8192, 65536]) for _ in range(ctx.rng.randrange(1, 3))]
        cases.append([1500, [size, script, bufs]])
    for c in cases:
        sc = c[1][1]
        total = sum(len(i[1]) for i in sc if i[0] == 0)
        ctx.count("file." + ("io-error" if any(i[0] == 2 for i in sc) else "shrank" if total < c[1][0] else "grew" if total > c[1][0] else "exact"))
    ctx.correspond("file_reader", cases, expected, observed, prop_ok,
                   nontrivial=lambda c, m: sexp.dumps(c[1]) if c[1][0] > 0 else None, describe=describe)
    ctx.extra["exhaustive"] = True
    # the real binary with a deterministic concurrent writer
    from vlib import dynrun, build
    build.ensure_vsb()
    dynrun.sweep(ctx, ctx.rng, None if thorough and os.environ.get("VERIF_DYN_FULL") else (900 if thorough else 60), {"C15", "C10"})
    ctx.rule += (" Real runs: victim file of size in {1, 5000, 8192, 20000, 70000} x {nested, top-level item} x {no previous backup, previous with matching "
                 "fingerprint, previous then touched} x every point of lstat/open/fstat/read#1..n+1 (n from an undisturbed run) x {truncate to 0 / half / "
                 "just below / just above the offset, append 1000 / 24576, unlink, replace by directory / symlink, rewrite same / larger size, and "
                 "shrink-then-grow in two steps}: %s of them; an LD_PRELOAD interposer performs the change right before the chosen call; the published "
                 "backup is decoded independently, restored with `vsb restore`, and size / hash / prefix / neighbours are examined."
                 % ("a sample of 900" if thorough else "a sample of 60"))
    ctx.assumptions += ["sha2 crate and hashlib compute SHA-512", "the underlying Read never returns more bytes than the buffer holds (rd_len)"]


def replay(ctx, doc):
    if "rules" in doc:
        from vlib import dynrun
        return dynrun.replay_case(ctx, doc, {"C15", "C10"})
    from vlib import impl
    c = sexp.loads(doc["case"])
    ok, why = prop_ok(c, impl.run_lines([c])[0])
    print("holds" if ok else "FAILS: " + why)
    if not ok:
        ctx.violation("replay", why, {"case": doc["case"]})
    return 0
