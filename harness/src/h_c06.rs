// C06: the real uploading::sync::sync_backups (included standalone by #[path]) with the real Storage type:
// the local side is a real directory tree read through the Filesystem provider, the cloud side a mock provider
// with an in-memory namespace that logs every mutating call.
// case: (local cloud ok0 max create_fail upload_fail) ; result: (0 actions ok)
use std::collections::{BTreeMap, BTreeSet};
use std::sync::{Arc, Mutex};

use crate::core::{EmptyResult, GenericResult};
use crate::providers::{File, FileType, Provider, ProviderType, ReadProvider, UploadProvider, WriteProvider};
use crate::providers::filesystem::Filesystem;
use crate::sexp::{self, Val};
use crate::storage::Storage;
use crate::util::hash::{Hasher, Md5};
use crate::util::stream_splitter::{ChunkStream, ChunkStreamReceiver};

pub fn group_name(n: u128) -> String {
    format!("{:04}.{:02}.{:02}", 2000 + n / 372, (n / 31) % 12 + 1, n % 31 + 1)
}

pub fn backup_name(b: u128) -> String {
    let t = b % 100000;
    format!("{}-{:02}:{:02}:{:02}", group_name(b / 100000), (t / 3600) % 24, (t / 60) % 60, t % 60)
}

#[derive(Default)]
pub struct CloudState {
    pub groups: BTreeMap<String, BTreeSet<String>>,
    pub log: Vec<Val>,
    pub create_fail: BTreeSet<String>,
    pub upload_fail: BTreeSet<(String, String)>,
    pub names: BTreeMap<String, u128>,
}

pub struct MockCloud { pub root: String, pub state: Arc<Mutex<CloudState>> }

impl Provider for MockCloud {
    fn name(&self) -> &'static str { "Mock cloud" }
    fn type_(&self) -> ProviderType { ProviderType::Cloud }
}

impl ReadProvider for MockCloud {
    fn list_directory(&self, path: &str) -> GenericResult<Option<Vec<File>>> {
        let st = self.state.lock().unwrap();
        if path == self.root {
            return Ok(Some(st.groups.keys().map(|g| File { name: g.clone(), type_: FileType::Directory, size: None }).collect()));
        }
        let g = path.rsplit('/').next().unwrap();
        match st.groups.get(g) {
            Some(files) => Ok(Some(files.iter().map(|f| File { name: f.clone(), type_: FileType::File, size: Some(1) }).collect())),
            None => Ok(None),
        }
    }
}

impl WriteProvider for MockCloud {
    fn create_directory(&self, path: &str) -> EmptyResult {
        let mut st = self.state.lock().unwrap();
        let g = path.rsplit('/').next().unwrap().to_owned();
        let id = *st.names.get(&g).unwrap_or(&999999);
        st.log.push(Val::L(vec![Val::n(0), Val::n(id)]));
        if st.create_fail.contains(&g) { return Err!("injected create failure") }
        st.groups.entry(g).or_default();
        Ok(())
    }
    fn delete(&self, path: &str) -> EmptyResult {
        let mut st = self.state.lock().unwrap();
        let g = path.rsplit('/').next().unwrap().to_owned();
        let id = *st.names.get(&g).unwrap_or(&999999);
        st.log.push(Val::L(vec![Val::n(2), Val::n(id)]));
        st.groups.remove(&g);
        Ok(())
    }
}

impl UploadProvider for MockCloud {
    fn hasher(&self) -> Box<dyn Hasher> { Box::new(Md5::new()) }
    fn max_request_size(&self) -> Option<u64> { None }
    fn upload_file(&self, directory_path: &str, _temp_name: &str, name: &str, chunk_streams: ChunkStreamReceiver) -> EmptyResult {
        let mut failed = false;
        for message in chunk_streams.iter() {
            match message {
                Ok(ChunkStream::Stream(_, chunks)) => { for c in chunks.iter() { if c.is_err() { failed = true } } }
                Ok(ChunkStream::EofWithCheckSum(_, _)) => {}
                Err(_) => failed = true,
            }
        }
        let mut st = self.state.lock().unwrap();
        let g = directory_path.rsplit('/').next().unwrap().to_owned();
        let b = name.trim_end_matches(".tar.gpg").to_owned();
        let gid = *st.names.get(&g).unwrap_or(&999999);
        let bid = *st.names.get(&b).unwrap_or(&999999);
        st.log.push(Val::L(vec![Val::n(1), Val::n(gid), Val::n(bid)]));
        if failed { return Err!("the stream ended with an error") }
        if st.upload_fail.contains(&(g.clone(), b)) { return Err!("injected upload failure") }
        st.groups.entry(g).or_default().insert(name.to_owned());
        Ok(())
    }
}

fn groups_of(v: &Val) -> Option<Vec<(u128, Vec<u128>)>> {
    v.list()?.iter().map(|g| {
        let l = g.list()?;
        Some((l[0].num()?, l[1].list()?.iter().filter_map(|b| b.num()).collect()))
    }).collect()
}

pub fn run(v: &Val) -> Val {
    let l = match v.list() { Some(l) if l.len() == 6 => l, _ => return sexp::bad_input() };
    let (local, cloud) = match (groups_of(&l[0]), groups_of(&l[1])) { (Some(a), Some(b)) => (a, b), _ => return sexp::bad_input() };
    let ok0 = l[2].boolean().unwrap();
    let max = l[3].num().unwrap() as usize;
    let mut st = CloudState::default();
    for g in l[4].list().unwrap() { st.create_fail.insert(group_name(g.num().unwrap())); }
    for p in l[5].list().unwrap() {
        let p = p.list().unwrap();
        st.upload_fail.insert((group_name(p[0].num().unwrap()), backup_name(p[1].num().unwrap())));
    }
    let tmp = std::env::temp_dir().join(format!("vsbh-c06-{}-{:?}", std::process::id(), std::thread::current().id()));
    let _ = std::fs::remove_dir_all(&tmp);
    std::fs::create_dir_all(&tmp).unwrap();
    for (g, bs) in &local {
        st.names.insert(group_name(*g), *g);
        let gd = tmp.join(group_name(*g));
        std::fs::create_dir(&gd).unwrap();
        for b in bs {
            st.names.insert(backup_name(*b), *b);
            let bd = gd.join(backup_name(*b));
            std::fs::create_dir(&bd).unwrap();
            std::fs::write(bd.join("data.tar.zst"), b"d").unwrap();
            std::fs::write(bd.join("metadata.zst"), b"m").unwrap();
        }
    }
    for (g, bs) in &cloud {
        st.names.insert(group_name(*g), *g);
        let e = st.groups.entry(group_name(*g)).or_default();
        let mut names = Vec::new();
        for b in bs { names.push((backup_name(*b), *b)); e.insert(format!("{}.tar.gpg", backup_name(*b))); }
        for (n, b) in names { st.names.insert(n, b); }
    }
    let state = Arc::new(Mutex::new(st));
    let root = tmp.to_str().unwrap().to_owned();
    let local_storage = Storage::new_read_only(Filesystem::new(), &root);
    let cloud_storage = Storage::new_upload(MockCloud { root: "/cloud".to_owned(), state: state.clone() }, "/cloud");
    let res = (|| -> GenericResult<bool> {
        let (lg, _lok) = local_storage.get_backup_groups(false)?;
        let (cg, _cok) = cloud_storage.get_backup_groups(false)?;
        Ok(crate::sync_alone::sync_backups(&local_storage, &lg, &cloud_storage, &cg, ok0, max, "pass phrase"))
    })();
    let _ = std::fs::remove_dir_all(&tmp);
    match res {
        Ok(ok) => {
            let log = state.lock().unwrap().log.clone();
            Val::L(vec![Val::n(0), Val::L(log), Val::of_bool(ok)])
        }
        Err(_) => Val::L(vec![Val::n(1)]),
    }
}
