// C15: the real FileReader over a scripted underlying reader.
// case: (size script bufsizes); script item = (0 bytes) | (1) EOF | (2) I/O error
// result: (0 out sha512-hex bytes_read) | (1) failed
use std::io::{self, Read};

use crate::sexp::{self, Val};
use crate::util::file_reader::FileReader;

enum Item { Data(Vec<u8>), Eof, Err }

struct Scripted { items: std::collections::VecDeque<Item> }

impl Read for Scripted {
    fn read(&mut self, buf: &mut [u8]) -> io::Result<usize> {
        match self.items.pop_front() {
            None => Ok(0),
            Some(Item::Eof) => Ok(0),
            Some(Item::Err) => Err(io::Error::new(io::ErrorKind::Other, "scripted I/O error")),
            Some(Item::Data(d)) => {
                if d.len() <= buf.len() {
                    buf[..d.len()].copy_from_slice(&d);
                    Ok(d.len())
                } else {
                    let n = buf.len();
                    buf.copy_from_slice(&d[..n]);
                    self.items.push_front(Item::Data(d[n..].to_vec()));
                    Ok(n)
                }
            }
        }
    }
}

pub fn run(v: &Val) -> Val {
    let l = match v.list() { Some(l) if l.len() == 3 => l, _ => return sexp::bad_input() };
    let size = l[0].num().unwrap() as u64;
    let mut items = std::collections::VecDeque::new();
    for it in l[1].list().unwrap() {
        let il = it.list().unwrap();
        items.push_back(match il[0].num().unwrap() { 0 => Item::Data(il[1].bytes().unwrap()), 1 => Item::Eof, _ => Item::Err });
    }
    let bufs: Vec<usize> = l[2].list().unwrap().iter().map(|x| std::cmp::max(1, x.num().unwrap() as usize)).collect();
    let mut src = Scripted { items };
    let mut fr = FileReader::new(&mut src, size);
    let mut out: Vec<u8> = Vec::new();
    let mut i = 0usize;
    loop {
        let bz = if bufs.is_empty() { 1 } else { bufs[i % bufs.len()] };
        let mut buf = vec![0xAAu8; bz];
        match fr.read(&mut buf) {
            Err(_) => return Val::L(vec![Val::n(1)]),
            Ok(0) => break,
            Ok(n) => { out.extend_from_slice(&buf[..n]); }
        }
        i += 1;
        if out.len() as u64 > size + 16 { break } // runaway guard: reported as an over-long entry
    }
    let (bytes_read, hash) = fr.consume();
    Val::L(vec![Val::n(0), Val::of_bytes(&out), Val::of_str(&hash.to_string()), Val::n(bytes_read as u128)])
}
