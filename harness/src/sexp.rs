// Text <-> Val, the same wire format as coq/theories/Wire.v: a number or a parenthesised list.
use std::fmt;

#[derive(Clone, Debug, PartialEq, Eq)]
pub enum Val {
    N(u128),
    L(Vec<Val>),
}

impl Val {
    pub fn n(x: u128) -> Val { Val::N(x) }
    pub fn num(&self) -> Option<u128> { if let Val::N(n) = self { Some(*n) } else { None } }
    pub fn list(&self) -> Option<&Vec<Val>> { if let Val::L(l) = self { Some(l) } else { None } }
    pub fn bytes(&self) -> Option<Vec<u8>> {
        self.list()?.iter().map(|v| v.num().and_then(|n| u8::try_from(n).ok())).collect()
    }
    pub fn bytess(&self) -> Option<Vec<Vec<u8>>> {
        self.list()?.iter().map(|v| v.bytes()).collect()
    }
    pub fn of_bytes(b: &[u8]) -> Val { Val::L(b.iter().map(|x| Val::N(*x as u128)).collect()) }
    pub fn of_str(s: &str) -> Val { Val::of_bytes(s.as_bytes()) }
    pub fn of_bool(b: bool) -> Val { Val::N(if b { 1 } else { 0 }) }
    pub fn boolean(&self) -> Option<bool> { self.num().map(|n| n != 0) }
    pub fn string(&self) -> Option<String> { String::from_utf8(self.bytes()?).ok() }
    // Z: (0 n) = n, (1 n) = -n
    pub fn of_i128(z: i128) -> Val {
        if z >= 0 { Val::L(vec![Val::N(0), Val::N(z as u128)]) }
        else { Val::L(vec![Val::N(1), Val::N(z.unsigned_abs())]) }
    }
    pub fn int(&self) -> Option<i128> {
        let l = self.list()?;
        if l.len() != 2 { return None }
        let n = l[1].num()?;
        match l[0].num()? {
            0 => i128::try_from(n).ok(),
            1 => if n == (1u128 << 127) { Some(i128::MIN) } else { i128::try_from(n).ok().map(|m| -m) },
            _ => None,
        }
    }
    pub fn some(v: Val) -> Val { Val::L(vec![v]) }
    pub fn none() -> Val { Val::L(vec![]) }
}

pub fn bad_input() -> Val { Val::L(vec![Val::N(255), Val::N(0)]) }

impl fmt::Display for Val {
    fn fmt(&self, f: &mut fmt::Formatter<'_>) -> fmt::Result {
        match self {
            Val::N(n) => write!(f, "{}", n),
            Val::L(l) => {
                write!(f, "(")?;
                for (i, v) in l.iter().enumerate() {
                    if i > 0 { write!(f, " ")?; }
                    write!(f, "{}", v)?;
                }
                write!(f, ")")
            }
        }
    }
}

pub fn parse(s: &str) -> Result<Val, String> {
    let b = s.as_bytes();
    let mut pos = 0usize;
    let v = parse_val(b, &mut pos)?;
    skip(b, &mut pos);
    if pos != b.len() { return Err("trailing".into()) }
    Ok(v)
}

fn skip(b: &[u8], pos: &mut usize) {
    while *pos < b.len() && (b[*pos] == b' ' || b[*pos] == b'\t' || b[*pos] == b'\r') { *pos += 1 }
}

fn parse_val(b: &[u8], pos: &mut usize) -> Result<Val, String> {
    // iterative to survive long / deep inputs
    let mut stack: Vec<Vec<Val>> = Vec::new();
    loop {
        skip(b, pos);
        if *pos >= b.len() { return Err("eof".into()) }
        let c = b[*pos];
        let done: Option<Val>;
        if c == b'(' {
            *pos += 1;
            stack.push(Vec::new());
            continue;
        } else if c == b')' {
            *pos += 1;
            let l = stack.pop().ok_or("unbalanced")?;
            done = Some(Val::L(l));
        } else if c.is_ascii_digit() {
            let mut n: u128 = 0;
            while *pos < b.len() && b[*pos].is_ascii_digit() {
                n = n.checked_mul(10).and_then(|x| x.checked_add((b[*pos] - b'0') as u128)).ok_or("overflow")?;
                *pos += 1;
            }
            done = Some(Val::N(n));
        } else {
            return Err(format!("char {} at {}", c as char, *pos));
        }
        let v = done.unwrap();
        match stack.last_mut() {
            Some(top) => top.push(v),
            None => return Ok(v),
        }
    }
}
