// C14: the real PathFilter on a spec text and a list of paths.
// case: (spec paths), spec as code points, paths as bytes; result: (0) rejected | (1 verdicts) | (2) a path check failed
use std::path::Path;

use crate::backuping::PathFilter;
use crate::sexp::{self, Val};

pub fn run(v: &Val) -> Val {
    let l = match v.list() { Some(l) if l.len() == 2 => l, _ => return sexp::bad_input() };
    let spec: String = match l[0].list() {
        Some(cs) => cs.iter().filter_map(|c| c.num().and_then(|n| char::from_u32(n as u32))).collect(),
        None => return sexp::bad_input(),
    };
    let paths = match l[1].bytess() { Some(p) => p, None => return sexp::bad_input() };
    let filter = match PathFilter::new(&spec) { Ok(f) => f, Err(_) => return Val::L(vec![Val::n(0)]) };
    let mut out = Vec::new();
    for p in paths {
        let s = match String::from_utf8(p) { Ok(s) => s, Err(_) => return sexp::bad_input() };
        match filter.check(Path::new(&s)) {
            Ok(b) => out.push(Val::of_bool(b)),
            Err(_) => return Val::L(vec![Val::n(2)]),
        }
    }
    Val::L(vec![Val::n(1), Val::L(out)])
}
