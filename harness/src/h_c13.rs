// C13 / C07: listing + verification through the public Storage API on a real directory, and check_backups
// (uploading/check.rs included standalone by #[path]) with the log records captured.
use std::sync::Mutex;
use std::time::Duration;

use crate::providers::filesystem::Filesystem;
use crate::sexp::{self, Val};
use crate::storage::Storage;

pub struct Capture { pub records: Mutex<Vec<(log::Level, String)>> }
pub static CAPTURE: Capture = Capture { records: Mutex::new(Vec::new()) };

impl log::Log for Capture {
    fn enabled(&self, _m: &log::Metadata) -> bool { true }
    fn log(&self, record: &log::Record) {
        self.records.lock().unwrap().push((record.level(), format!("{}", record.args())));
    }
    fn flush(&self) {}
}

pub fn init_logger() {
    let _ = log::set_logger(&CAPTURE);
    log::set_max_level(log::LevelFilter::Info);
}

pub fn take_records() -> Vec<(log::Level, String)> {
    std::mem::take(&mut *CAPTURE.records.lock().unwrap())
}

fn classify(msg: &str) -> u128 {
    if msg.contains("doesn't have any backup for last") { 4 }
    else if msg.contains("have no backups") { 2 }
    else if msg.contains("in the future") { 3 }
    else if msg.contains("has an empty") { 5 }
    else { 9 }
}

// (root) -> (0 list_ok verify_ok ((group (backups) (temporaries)) ...)) | (1)
pub fn verify(v: &Val) -> Val {
    let l = match v.list() { Some(l) if l.len() == 1 => l, _ => return sexp::bad_input() };
    let root = l[0].string().unwrap();
    take_records();
    let storage = Storage::new_read_only(Filesystem::new(), &root);
    let (groups, list_ok) = match storage.get_backup_groups(false) { Ok(x) => x, Err(_) => return Val::L(vec![Val::n(1)]) };
    let summary: Vec<Val> = groups.iter().map(|g| Val::L(vec![
        Val::of_str(&g.name),
        Val::L(g.backups.iter().map(|b| Val::of_str(&b.name)).collect()),
        Val::L(g.temporary_backups.iter().map(|b| Val::of_str(&b.name)).collect()),
    ])).collect();
    let (_g2, all_ok) = match storage.get_backup_groups(true) { Ok(x) => x, Err(_) => return Val::L(vec![Val::n(1)]) };
    let errors = take_records().iter().filter(|r| r.0 == log::Level::Error).count();
    Val::L(vec![Val::n(0), Val::of_bool(list_ok), Val::of_bool(all_ok), Val::L(summary), Val::n(errors as u128)])
}

// (root threshold_opt consistent) -> (0 ((level class) ...))  : error / warning records of check_backups
pub fn check(v: &Val) -> Val {
    let l = match v.list() { Some(l) if l.len() == 3 => l, _ => return sexp::bad_input() };
    let root = l[0].string().unwrap();
    let thr = match l[1].list() { Some(o) if o.is_empty() => None, Some(o) => Some(Duration::from_secs(o[0].num().unwrap() as u64)), None => return sexp::bad_input() };
    let consistent = l[2].boolean().unwrap();
    let storage = Storage::new_read_only(Filesystem::new(), &root);
    let (groups, _ok) = match storage.get_backup_groups(false) { Ok(x) => x, Err(_) => return Val::L(vec![Val::n(1)]) };
    take_records();
    crate::check_alone::check_backups(&storage, &groups, consistent, thr);
    let recs: Vec<Val> = take_records().iter().filter(|r| r.0 <= log::Level::Warn).map(|r| Val::L(vec![
        Val::n(if r.0 == log::Level::Error { 1 } else { 0 }), Val::n(classify(&r.1)), Val::of_str(&r.1)])).collect();
    Val::L(vec![Val::n(0), Val::L(recs)])
}
