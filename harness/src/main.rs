// vsbh: correspondence harness.  The whole module tree of /repo/src is included by #[path], so every
// subcommand below drives vsb's real functions as they are in /repo's current working tree.
#![allow(dead_code, unused_imports, unused_macros, clippy::all)]

#[macro_use] #[path = "/repo/src/core.rs"] mod core;
#[path = "/repo/src/backuping/mod.rs"] mod backuping;
#[path = "/repo/src/cli/mod.rs"] mod cli;
#[path = "/repo/src/config.rs"] mod config;
#[path = "/repo/src/http_client/mod.rs"] mod http_client;
#[path = "/repo/src/providers/mod.rs"] mod providers;
#[path = "/repo/src/restoring/mod.rs"] mod restoring;
#[path = "/repo/src/storage/mod.rs"] mod storage;
#[path = "/repo/src/uploading/mod.rs"] mod uploading;
#[path = "/repo/src/util/mod.rs"] mod util;

#[path = "/repo/src/uploading/sync.rs"] mod sync_alone;
#[path = "/repo/src/restoring/util.rs"] mod restoring_util;
#[path = "/repo/src/uploading/check.rs"] mod check_alone;

mod sexp;
mod h_c18;
mod h_c17;
mod h_c15;
mod h_c14;
mod h_c10;
mod h_c06;
mod h_c20;
mod h_storage;
mod h_paths;
mod h_c13;

use std::io::{self, BufRead, Write};

use sexp::Val;

fn main() {
    let args: Vec<String> = std::env::args().collect();
    if args.len() < 2 {
        eprintln!("usage: vsbh <subcommand>");
        std::process::exit(2);
    }
    match args[1].as_str() {
        // line mode: one case per line on stdin, one result per line on stdout
        "lines" => lines(),
        "storage-read" | "storage-write" => h_storage::main(&args[1..]),
        other => {
            eprintln!("unknown subcommand {}", other);
            std::process::exit(2);
        }
    }
}

fn lines() {
    h_c13::init_logger();
    let stdin = io::stdin();
    let stdout = io::stdout();
    let mut out = io::BufWriter::new(stdout.lock());
    for line in stdin.lock().lines() {
        let line = line.unwrap();
        if line.trim().is_empty() {
            continue;
        }
        let res = match sexp::parse(&line) {
            Ok(v) => {
                let r = std::panic::catch_unwind(|| dispatch(&v));
                match r {
                    Ok(v) => v,
                    Err(_) => Val::L(vec![Val::n(254), Val::n(0)]), // panic
                }
            }
            Err(_) => Val::L(vec![Val::n(255), Val::n(2)]),
        };
        writeln!(out, "{}", res).unwrap();
    }
    out.flush().unwrap();
}

fn dispatch(v: &Val) -> Val {
    let l = match v.list() { Some(l) if l.len() == 2 => l, _ => return sexp::bad_input() };
    let tag = match l[0].num() { Some(t) => t, None => return sexp::bad_input() };
    match tag {
        1800 => h_c18::chunked(&l[1]),
        1801 => h_c18::md5(&l[1]),
        1802 => h_c18::provider_hasher(&l[1]),
        1700 => h_c17::run(&l[1]),
        1500 => h_c15::run(&l[1]),
        1400 => h_c14::run(&l[1]),
        600 => h_c06::run(&l[1]),
        2000 => h_c20::run(&l[1]),
        1300 => h_c13::verify(&l[1]),
        1301 => h_c13::check(&l[1]),
        1101 => h_paths::restore_path(&l[1]),
        1102 => h_paths::tar_path(&l[1]),
        1000 => h_c10::encode(&l[1]),
        1001 => h_c10::decode(&l[1]),
        1002 => h_c10::valid_path(&l[1]),
        _ => sexp::bad_input(),
    }
}
