// Independent storage reader / writer (Layer A): uses the tar and zstd crates directly, none of vsb's reader or
// writer code.  JSON in, JSON out.
use std::fs;
use std::io::{Cursor, Read, Write};
use std::os::unix::fs::{MetadataExt, PermissionsExt};
use std::path::Path;

use digest::Digest;
use serde_json::{json, Value};

fn hexs(b: &[u8]) -> String { hex::encode(b) }

pub fn read_storage(root: &str) -> Value {
    let mut groups = Vec::new();
    let mut root_junk = Vec::new();
    let mut names: Vec<String> = match fs::read_dir(root) {
        Ok(rd) => rd.filter_map(|e| e.ok()).map(|e| e.file_name().to_string_lossy().into_owned()).collect(),
        Err(e) => return json!({"error": format!("{}", e)}),
    };
    names.sort();
    for g in names {
        let gp = Path::new(root).join(&g);
        let md = fs::symlink_metadata(&gp).unwrap();
        if !md.is_dir() {
            root_junk.push(json!({"name": g, "dir": false}));
            continue;
        }
        let mut backups = Vec::new();
        let mut bnames: Vec<String> = fs::read_dir(&gp).unwrap().filter_map(|e| e.ok()).map(|e| e.file_name().to_string_lossy().into_owned()).collect();
        bnames.sort();
        for b in bnames {
            let bp = gp.join(&b);
            let bmd = fs::symlink_metadata(&bp).unwrap();
            if !bmd.is_dir() {
                backups.push(json!({"name": b, "dir": false, "mode": bmd.mode() & 0o7777}));
                continue;
            }
            backups.push(read_backup(&bp, &b, bmd.mode() & 0o7777));
        }
        groups.push(json!({"name": g, "mode": md.mode() & 0o7777, "entries": backups}));
    }
    json!({"groups": groups, "junk": root_junk})
}

fn read_backup(bp: &Path, name: &str, mode: u32) -> Value {
    let mut files = Vec::new();
    let mut fnames: Vec<String> = fs::read_dir(bp).unwrap().filter_map(|e| e.ok()).map(|e| e.file_name().to_string_lossy().into_owned()).collect();
    fnames.sort();
    for f in &fnames {
        let md = fs::symlink_metadata(bp.join(f)).unwrap();
        files.push(json!({"name": f, "mode": md.mode() & 0o7777, "size": md.len(), "file": md.is_file()}));
    }
    let manifest = match fs::read(bp.join("metadata.zst")) {
        Err(_) => json!({"missing": true}),
        Ok(z) => match zstd::decode_all(Cursor::new(z)) {
            Err(e) => json!({"undecodable": format!("{}", e)}),
            Ok(text) => json!({"text_hex": hexs(&text)}),
        },
    };
    let archive = match fs::read(bp.join("data.tar.zst")) {
        Err(_) => json!({"missing": true}),
        Ok(z) => match zstd::decode_all(Cursor::new(z)) {
            Err(e) => json!({"undecodable": format!("{}", e)}),
            Ok(tarbytes) => read_tar(&tarbytes),
        },
    };
    json!({"name": name, "dir": true, "mode": mode, "files": files, "manifest": manifest, "archive": archive})
}

fn read_tar(tarbytes: &[u8]) -> Value {
    let mut entries = Vec::new();
    let mut ar = tar::Archive::new(Cursor::new(tarbytes));
    let it = match ar.entries() { Ok(i) => i, Err(e) => return json!({"bad_tar": format!("{}", e)}) };
    for e in it {
        let mut e = match e { Ok(e) => e, Err(err) => { entries.push(json!({"error": format!("{}", err)})); break } };
        let h = e.header().clone();
        let path = e.path_bytes().into_owned();
        let ty = match h.entry_type() {
            tar::EntryType::Directory => "dir",
            tar::EntryType::Regular => "file",
            tar::EntryType::Symlink => "sym",
            _ => "other",
        };
        let target = e.link_name_bytes().map(|t| hexs(&t));
        let mut data = Vec::new();
        let rd = e.read_to_end(&mut data);
        let mut v = json!({
            "type": ty, "path_hex": hexs(&path), "mode": h.mode().unwrap_or(0), "uid": h.uid().unwrap_or(0), "gid": h.gid().unwrap_or(0),
            "mtime": h.mtime().unwrap_or(0), "size": h.size().unwrap_or(0), "sha512": hexs(&sha2::Sha512::digest(&data)),
            "data_len": data.len(), "read_ok": rd.is_ok(),
        });
        let limit = if std::env::var("VSBH_FULL_DATA").is_ok() { 8 << 20 } else { 16384 };
        if data.len() <= limit { v["data_hex"] = json!(hexs(&data)); }
        if let Some(t) = target { v["target_hex"] = json!(t); }
        entries.push(v);
    }
    json!({"entries": entries, "tar_len": tarbytes.len()})
}

// ---- writer ---------------------------------------------------------------------------------------------------
pub fn write_storage(spec: &Value, root: &str) -> Result<(), String> {
    fs::create_dir_all(root).map_err(|e| e.to_string())?;
    for j in spec["junk"].as_array().unwrap_or(&vec![]) {
        write_junk(Path::new(root), j)?;
    }
    for g in spec["groups"].as_array().unwrap_or(&vec![]) {
        let gp = Path::new(root).join(g["name"].as_str().unwrap());
        fs::create_dir_all(&gp).map_err(|e| e.to_string())?;
        fs::set_permissions(&gp, fs::Permissions::from_mode(0o700)).ok();
        for j in g["junk"].as_array().unwrap_or(&vec![]) {
            write_junk(&gp, j)?;
        }
        for b in g["backups"].as_array().unwrap_or(&vec![]) {
            let bp = gp.join(b["name"].as_str().unwrap());
            fs::create_dir_all(&bp).map_err(|e| e.to_string())?;
            fs::set_permissions(&bp, fs::Permissions::from_mode(0o700)).ok();
            if !b["omit_meta"].as_bool().unwrap_or(false) {
                let text: Vec<u8> = if let Some(h) = b["manifest_hex"].as_str() {
                    hex::decode(h).map_err(|e| e.to_string())?
                } else {
                    let mut t = Vec::new();
                    for l in b["manifest"].as_array().unwrap_or(&vec![]) {
                        if let Some(raw) = l["raw_hex"].as_str() {
                            t.extend(hex::decode(raw).map_err(|e| e.to_string())?);
                        } else {
                            let fp = &l["fp"];
                            t.extend(format!("{} {} {}:{}:{} {} ", if l["unique"].as_bool().unwrap() { "unique" } else { "extern" },
                                l["hash"].as_str().unwrap(), fp[0], fp[1], fp[2], l["size"]).as_bytes());
                            t.extend(hex::decode(l["path_hex"].as_str().unwrap()).map_err(|e| e.to_string())?);
                        }
                        t.push(b'\n');
                    }
                    t
                };
                let z = if b["meta_garbage"].as_bool().unwrap_or(false) { text } else { zstd::encode_all(Cursor::new(text), 3).map_err(|e| e.to_string())? };
                let z = match b["meta_truncate"].as_u64() { Some(n) => z[..std::cmp::min(n as usize, z.len())].to_vec(), None => z };
                let z = match b["meta_truncate_permille"].as_u64() { Some(n) => z[..(z.len() as u64 * n / 1000) as usize].to_vec(), None => z };
                let z = match b["meta_append_hex"].as_str() { Some(h) => { let mut z = z; z.extend(hex::decode(h).map_err(|e| e.to_string())?); z }, None => z };
                fs::write(bp.join("metadata.zst"), z).map_err(|e| e.to_string())?;
            }
            if !b["omit_data"].as_bool().unwrap_or(false) {
                let mut builder = tar::Builder::new(Vec::new());
                for e in b["entries"].as_array().unwrap_or(&vec![]) {
                    let mut h = tar::Header::new_gnu();
                    h.set_mode(e["mode"].as_u64().unwrap_or(0o644) as u32);
                    h.set_uid(e["uid"].as_u64().unwrap_or(0));
                    h.set_gid(e["gid"].as_u64().unwrap_or(0));
                    h.set_mtime(e["mtime"].as_u64().unwrap_or(0));
                    let path = hex::decode(e["path_hex"].as_str().unwrap()).map_err(|e| e.to_string())?;
                    let data = hex::decode(e["data_hex"].as_str().unwrap_or("")).map_err(|e| e.to_string())?;
                    use std::os::unix::ffi::OsStrExt;
                    let p = std::ffi::OsStr::from_bytes(&path);
                    let raw = e["raw_path"].as_bool().unwrap_or(false);
                    match e["type"].as_str().unwrap() {
                        "dir" => {
                            h.set_entry_type(tar::EntryType::Directory);
                            h.set_size(0);
                            append(&mut builder, &mut h, p, &[][..], raw)?;
                        }
                        "sym" => {
                            h.set_entry_type(tar::EntryType::Symlink);
                            h.set_size(0);
                            let t = hex::decode(e["target_hex"].as_str().unwrap_or("")).map_err(|e| e.to_string())?;
                            builder.append_link(&mut h, p, std::ffi::OsStr::from_bytes(&t)).map_err(|e| e.to_string())?;
                        }
                        "fifo" => {
                            h.set_entry_type(tar::EntryType::Fifo);
                            h.set_size(0);
                            append(&mut builder, &mut h, p, &[][..], raw)?;
                        }
                        _ => {
                            h.set_entry_type(tar::EntryType::Regular);
                            h.set_size(data.len() as u64);
                            append(&mut builder, &mut h, p, &data[..], raw)?;
                        }
                    }
                }
                let tarbytes = builder.into_inner().map_err(|e| e.to_string())?;
                let z = zstd::encode_all(Cursor::new(tarbytes), 3).map_err(|e| e.to_string())?;
                let z = match b["data_truncate"].as_u64() { Some(n) => z[..std::cmp::min(n as usize, z.len())].to_vec(), None => z };
                fs::write(bp.join("data.tar.zst"), z).map_err(|e| e.to_string())?;
            }
            for j in b["junk"].as_array().unwrap_or(&vec![]) {
                write_junk(&bp, j)?;
            }
        }
    }
    Ok(())
}

fn append(builder: &mut tar::Builder<Vec<u8>>, h: &mut tar::Header, p: &std::ffi::OsStr, data: &[u8], raw: bool) -> Result<(), String> {
    if raw {
        // write the path bytes into the header as they are (absolute or with ".." components): Builder::append_data refuses those
        use std::os::unix::ffi::OsStrExt;
        let bytes = p.as_bytes();
        let old = h.as_old_mut();
        if bytes.len() > old.name.len() { return Err("raw path too long".into()) }
        for b in old.name.iter_mut() { *b = 0 }
        old.name[..bytes.len()].copy_from_slice(bytes);
        h.set_cksum();
        builder.append(h, data).map_err(|e| e.to_string())
    } else {
        builder.append_data(h, p, data).map_err(|e| e.to_string())
    }
}

fn write_junk(dir: &Path, j: &Value) -> Result<(), String> {
    let p = dir.join(j["name"].as_str().unwrap());
    if j["dir"].as_bool().unwrap_or(false) {
        fs::create_dir_all(&p).map_err(|e| e.to_string())
    } else {
        fs::File::create(&p).and_then(|mut f| f.write_all(b"junk")).map_err(|e| e.to_string())
    }
}

pub fn main(args: &[String]) {
    match args[0].as_str() {
        "storage-read" => println!("{}", read_storage(&args[1])),
        "storage-write" => {
            let mut s = String::new();
            fs::File::open(&args[1]).unwrap().read_to_string(&mut s).unwrap();
            let v: Value = serde_json::from_str(&s).unwrap();
            match write_storage(&v, &args[2]) {
                Ok(()) => println!("ok"),
                Err(e) => { println!("error: {}", e); std::process::exit(1) }
            }
        }
        _ => std::process::exit(2),
    }
}
