// C18: drive the real hashers with a given fragmentation.
use std::io::Write;

use crate::sexp::{self, Val};
use crate::util::hash::{ChunkedSha256, Hasher, Md5};

// (bs fragments) -> (0 hex-digest-bytes)
pub fn chunked(v: &Val) -> Val {
    let l = match v.list() { Some(l) if l.len() == 2 => l, _ => return sexp::bad_input() };
    let (bs, ws) = match (l[0].num(), l[1].bytess()) { (Some(b), Some(w)) => (b, w), _ => return sexp::bad_input() };
    if bs == 0 {
        // write_all on a zero block size never makes progress (the model runs out of fuel)
        return Val::L(vec![Val::n(255), Val::n(1)]);
    }
    let mut h: Box<dyn Hasher> = Box::new(ChunkedSha256::new(bs as usize));
    for w in &ws {
        h.write_all(w).unwrap();
    }
    Val::L(vec![Val::n(0), Val::of_str(&h.finish().to_string())])
}

// (fragments) -> (0 hex-digest-bytes)
pub fn md5(v: &Val) -> Val {
    let l = match v.list() { Some(l) if l.len() == 1 => l, _ => return sexp::bad_input() };
    let ws = match l[0].bytess() { Some(w) => w, None => return sexp::bad_input() };
    let mut h: Box<dyn Hasher> = Box::new(Md5::new());
    for w in &ws {
        h.write_all(w).unwrap();
    }
    Val::L(vec![Val::n(0), Val::of_str(&h.finish().to_string())])
}

// (provider total_len seed fragment_sizes) -> (0 hex-digest-bytes): the hasher the provider itself selects,
// fed with a pseudo-random stream of total_len bytes (xorshift from seed) cut at the given sizes (cyclically)
pub fn provider_hasher(v: &Val) -> Val {
    use crate::providers::{dropbox::Dropbox, yandex_disk::YandexDisk, google_drive::GoogleDrive, UploadProvider};
    let l = match v.list() { Some(l) if l.len() == 4 => l, _ => return sexp::bad_input() };
    let provider = l[0].num().unwrap_or(99);
    let total = l[1].num().unwrap_or(0) as usize;
    let seed = l[2].num().unwrap_or(1) as u64;
    let sizes: Vec<usize> = match l[3].list() {
        Some(s) => s.iter().filter_map(|x| x.num()).map(|x| x as usize).filter(|x| *x > 0).collect(),
        None => return sexp::bad_input(),
    };
    if sizes.is_empty() { return sexp::bad_input() }
    let mut h: Box<dyn Hasher> = match provider {
        0 => Dropbox::new("a", "b", "c").map(|p| p.hasher()),
        1 => YandexDisk::new("a", "b", "c").map(|p| p.hasher()),
        2 => Ok(GoogleDrive::new("a", "b", "c").hasher()),
        _ => return sexp::bad_input(),
    }.unwrap();
    let data = stream(seed, total);
    let mut pos = 0usize;
    let mut i = 0usize;
    while pos < total {
        let n = std::cmp::min(sizes[i % sizes.len()], total - pos);
        h.write_all(&data[pos..pos + n]).unwrap();
        pos += n;
        i += 1;
    }
    Val::L(vec![Val::n(0), Val::of_str(&h.finish().to_string())])
}

pub fn stream(seed: u64, total: usize) -> Vec<u8> {
    // period-251 pattern (coprime to every power-of-two block size); the python side builds the same
    let pat: Vec<u8> = (0..251u64).map(|j| ((j * (seed % 250 + 1) + 3) % 251) as u8).collect();
    (0..total).map(|i| pat[i % 251]).collect()
}
