// C17: drive the real stream_splitter::split with a scripted producer and a scripted consumer.
// case: (max_opt budget_opt msgs delays); msg = (0 payload) | (1 sum) | (2 err)
// result: (0 events result) with the events the consumer observed:
//   (0 off) body announced, (1 bytes) chunk, (2) body closed, (3 total sum) finalisation, (4 err) upstream error
// result: 0 ok, 1 sender closed, 2 receiver closed, 3 extra message, 8 other error text
use std::sync::mpsc;
use std::thread;
use std::time::Duration;

use bytes::Bytes;

use crate::sexp::{self, Val};
use crate::util::hash::Hash;
use crate::util::stream_splitter::{self, ChunkStream, Data};

enum Msg { Payload(Vec<u8>), Eof(Vec<u8>), Err(u128) }

// watchdog: the splitter and its consumer must terminate ("fail rather than block"); a case that does not answer within 10 s is reported as
// (254 1) and its threads are left behind
static BLOCKED: std::sync::atomic::AtomicUsize = std::sync::atomic::AtomicUsize::new(0);

pub fn run(v: &Val) -> Val {
    use std::sync::atomic::Ordering;
    if BLOCKED.load(Ordering::SeqCst) >= 3 {
        return Val::L(vec![Val::n(254), Val::n(2)]);        // not run: three earlier cases of this process never answered
    }
    let (tx, rx) = mpsc::channel();
    let v2 = v.clone();
    thread::spawn(move || { let _ = tx.send(run_inner(&v2)); });
    match rx.recv_timeout(Duration::from_secs(5)) {
        Ok(r) => r,
        Err(_) => { BLOCKED.fetch_add(1, Ordering::SeqCst); Val::L(vec![Val::n(254), Val::n(1)]) }
    }
}

fn run_inner(v: &Val) -> Val {
    let l = match v.list() { Some(l) if l.len() >= 3 => l, _ => return sexp::bad_input() };
    let max: Option<u64> = match l[0].list() { Some(o) if o.is_empty() => None, Some(o) => o[0].num().map(|x| x as u64), None => return sexp::bad_input() };
    let budget: Option<u64> = match l[1].list() { Some(o) if o.is_empty() => None, Some(o) => o[0].num().map(|x| x as u64), None => return sexp::bad_input() };
    let mut msgs = Vec::new();
    for m in l[2].list().unwrap() {
        let ml = m.list().unwrap();
        msgs.push(match ml[0].num().unwrap() {
            0 => Msg::Payload(ml[1].bytes().unwrap()),
            1 => Msg::Eof(ml[1].bytes().unwrap()),
            _ => Msg::Err(ml[1].num().unwrap()),
        });
    }
    let delay_seed: u64 = if l.len() > 3 { l[3].num().unwrap_or(0) as u64 } else { 0 };
    if max == Some(0) { return Val::L(vec![Val::n(255), Val::n(1)]) }

    let (tx, rx) = mpsc::sync_channel::<Result<Data, String>>(2);
    let producer = thread::spawn(move || {
        let mut x = delay_seed;
        for m in msgs {
            if delay_seed != 0 { x = jitter(x); }
            let r = match m {
                Msg::Payload(d) => tx.send(Ok(Data::Payload(Bytes::from(d)))),
                Msg::Eof(s) => tx.send(Ok(Data::EofWithChecksum(Hash::from(s.as_slice())))),
                Msg::Err(e) => tx.send(Err(e.to_string())),
            };
            if r.is_err() { break }
        }
        // sender dropped here: hang-up
    });

    let (streams, handle) = match stream_splitter::split(rx, max) {
        Ok(x) => x,
        Err(_) => return Val::L(vec![Val::n(255), Val::n(3)]),
    };

    let mut events: Vec<Val> = Vec::new();
    let mut left = budget;
    let mut x = delay_seed.wrapping_mul(31).wrapping_add(7);
    let take = |left: &mut Option<u64>| -> bool {
        match left { None => true, Some(0) => false, Some(n) => { *n -= 1; true } }
    };
    'outer: loop {
        if left == Some(0) { break }
        if delay_seed != 0 { x = jitter(x); }
        match streams.recv() {
            Err(_) => break,
            Ok(Err(e)) => {
                take(&mut left);
                events.push(Val::L(vec![Val::n(4), Val::n(e.parse::<u128>().unwrap_or(999999))]));
            }
            Ok(Ok(ChunkStream::EofWithCheckSum(total, sum))) => {
                take(&mut left);
                events.push(Val::L(vec![Val::n(3), Val::n(total as u128), Val::of_bytes(&hex::decode(sum.to_string()).unwrap())]));
            }
            Ok(Ok(ChunkStream::Stream(off, chunks))) => {
                take(&mut left);
                events.push(Val::L(vec![Val::n(0), Val::n(off as u128)]));
                loop {
                    if left == Some(0) { break 'outer }
                    if delay_seed != 0 { x = jitter(x); }
                    match chunks.recv() {
                        Err(_) => { events.push(Val::L(vec![Val::n(2)])); break }
                        Ok(Ok(b)) => { take(&mut left); events.push(Val::L(vec![Val::n(1), Val::of_bytes(&b)])); }
                        Ok(Err(_)) => { take(&mut left); events.push(Val::L(vec![Val::n(5)])); }
                    }
                }
            }
        }
    }
    drop(streams);
    let res = match handle.join() {
        Ok(Ok(())) => 0,
        Ok(Err(e)) => {
            let s = e.to_string();
            if s.contains("sender has been closed") { 1 }
            else if s.contains("receiver has been closed") { 2 }
            else if s.contains("after a termination") { 3 }
            else { 8 }
        }
        Err(_) => 7,
    };
    let _ = producer.join();
    Val::L(vec![Val::n(0), Val::L(events), Val::n(res)])
}

fn jitter(x: u64) -> u64 {
    let mut x = x | 1;
    x ^= x << 13; x ^= x >> 7; x ^= x << 17;
    if x % 3 == 0 { thread::sleep(Duration::from_micros(50 + x % 200)); } else if x % 3 == 1 { thread::yield_now(); }
    x
}
