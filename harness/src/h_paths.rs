// Path functions: restoring::util (included standalone by #[path]) and config::validate_path through Config::load.
use std::ffi::OsStr;
use std::os::unix::ffi::OsStrExt;
use std::path::Path;

use crate::sexp::{self, Val};

fn enc(r: Option<Vec<u8>>) -> Val {
    match r { Some(b) => Val::L(vec![Val::n(1), Val::of_bytes(&b)]), None => Val::L(vec![Val::n(0)]) }
}

// (dir path) -> get_restore_path
pub fn restore_path(v: &Val) -> Val {
    let l = match v.list() { Some(l) if l.len() == 2 => l, _ => return sexp::bad_input() };
    let (d, p) = (l[0].bytes().unwrap(), l[1].bytes().unwrap());
    let r = crate::restoring_util::get_restore_path(Path::new(OsStr::from_bytes(&d)), Path::new(OsStr::from_bytes(&p)));
    enc(r.ok().map(|p| p.as_os_str().as_bytes().to_vec()))
}

// (path) -> get_file_path_from_tar_path
pub fn tar_path(v: &Val) -> Val {
    let l = match v.list() { Some(l) if l.len() == 1 => l, _ => return sexp::bad_input() };
    let p = l[0].bytes().unwrap();
    let r = crate::restoring_util::get_file_path_from_tar_path(Path::new(OsStr::from_bytes(&p)));
    enc(r.ok().map(|p| p.as_os_str().as_bytes().to_vec()))
}
