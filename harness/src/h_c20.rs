// C20: the real Config::load on a document text.  case: (home_opt release text tree); result: (0) | (1 specs metrics)
use std::io::Write;

use crate::config::Config;
use crate::sexp::{self, Val};
use crate::uploading::ProviderConfig;

pub fn run(v: &Val) -> Val {
    let l = match v.list() { Some(l) if l.len() == 4 => l, _ => return sexp::bad_input() };
    let text = match l[2].bytes() { Some(t) => t, None => return sexp::bad_input() };
    let path = std::env::temp_dir().join(format!("vsbh-c20-{}-{:?}.yaml", std::process::id(), std::thread::current().id()));
    std::fs::File::create(&path).unwrap().write_all(&text).unwrap();
    let res = Config::load(&path);
    let _ = std::fs::remove_file(&path);
    let c = match res { Ok(c) => c, Err(_) => return Val::L(vec![Val::n(0)]) };
    let opt_s = |o: &Option<String>| match o { Some(s) => Val::some(Val::of_str(s)), None => Val::none() };
    let specs: Vec<Val> = c.backups.iter().map(|s| {
        let b = match &s.backup {
            Some(b) => Val::some(Val::L(vec![
                Val::L(b.items.iter().map(|i| {
                    let nrules = serde_json::to_string(&i.filter).ok()
                        .and_then(|j| serde_json::from_str::<String>(&j).ok())
                        .map(|spec| spec.lines().filter(|l| { let t = l.trim_start_matches(|c| c == ' ' || c == '\t'); !t.is_empty() && !t.starts_with('#') }).count())
                        .unwrap_or(0);
                    Val::L(vec![Val::of_str(&i.path), Val::n(nrules as u128), opt_s(&i.before), opt_s(&i.after)])
                }).collect()),
                Val::n(b.max_backup_groups as u128), Val::n(b.max_backups_per_group as u128)])),
            None => Val::none(),
        };
        let u = match &s.upload {
            Some(u) => {
                let prov = match u.provider {
                    ProviderConfig::Dropbox {..} => "dropbox",
                    ProviderConfig::GoogleDrive {..} => "google-drive",
                    ProviderConfig::YandexDisk {..} => "yandex-disk",
                };
                Val::some(Val::L(vec![Val::of_str(prov), Val::of_str(&u.path), Val::n(u.max_backup_groups as u128),
                    Val::of_str(&u.encryption_passphrase),
                    match u.max_time_without_backups { Some(d) => Val::some(Val::n(d.as_secs() as u128)), None => Val::none() }]))
            }
            None => Val::none(),
        };
        Val::L(vec![Val::of_str(&s.name), Val::of_str(&s.path), b, u])
    }).collect();
    Val::L(vec![Val::n(1), Val::L(specs), opt_s(&c.prometheus_metrics)])
}
