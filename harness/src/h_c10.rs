// C10: the real MetadataWriter / MetadataReader (through zstd) on generated items and texts.
use std::io::Cursor;
use std::path::Path;

use crate::sexp::{self, Val};
use crate::storage::metadata::{MetadataItem, MetadataReader, MetadataWriter, validate_path};

fn fp_fields(item: &MetadataItem) -> (u128, u128, i128) {
    // Fingerprint's fields are private: read them from its Debug rendering
    let s = format!("{:?}", item.fingerprint);
    let get = |name: &str| -> String {
        let i = s.find(name).unwrap() + name.len();
        let rest = &s[i..];
        let rest = rest.trim_start_matches(|c: char| c == ':' || c == ' ');
        rest.chars().take_while(|c| c.is_ascii_digit() || *c == '-').collect()
    };
    (get("device").parse().unwrap(), get("inode").parse().unwrap(), get("mtime_nsec").parse().unwrap())
}

fn enc_item(item: &MetadataItem) -> Val {
    let (d, i, m) = fp_fields(item);
    Val::L(vec![Val::of_bool(item.unique), Val::of_bytes(&hex::decode(item.hash.to_string()).unwrap()),
                Val::n(d), Val::n(i), Val::of_i128(m), Val::n(item.size as u128), Val::of_bytes(item.path.as_bytes())])
}

fn read_all(text: &[u8]) -> Vec<Result<MetadataItem, String>> {
    let z = zstd::encode_all(Cursor::new(text.to_vec()), 1).unwrap();
    MetadataReader::new(Cursor::new(z)).map(|r| r.map_err(|e| e.to_string())).collect()
}

// (text) -> (0 ((1 item)|(0)) ...)
pub fn decode(v: &Val) -> Val {
    let l = match v.list() { Some(l) if l.len() == 1 => l, _ => return sexp::bad_input() };
    let text = match l[0].bytes() { Some(t) => t, None => return sexp::bad_input() };
    let out: Vec<Val> = read_all(&text).iter().map(|r| match r {
        Ok(it) => Val::L(vec![Val::n(1), enc_item(it)]),
        Err(_) => Val::L(vec![Val::n(0)]),
    }).collect();
    Val::L(vec![Val::n(0), Val::L(out)])
}

// (items) -> (0 text): items are turned into MetadataItem values by reading a rendering of them back through the
// real reader (the only way to obtain a Fingerprint with chosen fields), then written with the real writer.
pub fn encode(v: &Val) -> Val {
    let l = match v.list() { Some(l) if l.len() == 1 => l, _ => return sexp::bad_input() };
    let mut text: Vec<u8> = Vec::new();
    let items = l[0].list().unwrap();
    for it in items {
        let f = it.list().unwrap();
        let line = format!("{} {} {}:{}:{} {} ", if f[0].boolean().unwrap() { "unique" } else { "extern" },
                           hex::encode(f[1].bytes().unwrap()), f[2].num().unwrap(), f[3].num().unwrap(), f[4].int().unwrap(), f[5].num().unwrap());
        text.extend_from_slice(line.as_bytes());
        text.extend_from_slice(&f[6].bytes().unwrap());
        text.push(b'\n');
    }
    let mut w = MetadataWriter::new(Vec::new());
    for r in read_all(&text) {
        match r {
            Ok(it) => {
                // go through the constructor the backup path uses, so that validate_path is exercised too
                let it2 = match MetadataItem::new(Path::new(&it.path), it.size, it.hash.clone(), it.fingerprint, it.unique) {
                    Ok(x) => x, Err(_) => return Val::L(vec![Val::n(2)]),
                };
                if w.write(&it2).is_err() { return Val::L(vec![Val::n(3)]) }
            }
            Err(_) => return Val::L(vec![Val::n(1)]),
        }
    }
    let z = w.finish().unwrap();
    let out = zstd::decode_all(Cursor::new(z)).unwrap();
    Val::L(vec![Val::n(0), Val::of_bytes(&out)])
}

// (path-bytes) -> (b): validate_path
pub fn valid_path(v: &Val) -> Val {
    use std::os::unix::ffi::OsStrExt;
    let l = match v.list() { Some(l) if l.len() == 1 => l, _ => return sexp::bad_input() };
    let p = l[0].bytes().unwrap();
    let os = std::ffi::OsStr::from_bytes(&p);
    Val::L(vec![Val::n(0), Val::of_bool(validate_path(Path::new(os)).is_ok())])
}
